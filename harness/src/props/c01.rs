//! C01 — wire decoding is total: any bytes give Ok or Err, never a panic or a hang; decoded names
//! are ≤ 255 octets with labels ≤ 63.
//!
//! Case lines (a trailing `!` on the op = implementation-vs-oracle only, no model side):
//!   name   <buf> <pos>          Name::read at index pos
//!   rdata  <type> <buf> <pos>   RData::read(decoder at pos, RecordType::from(type))
//!   record <buf> <pos>          Record::read at index pos
//!   msg    <buf>                Message::from_vec
//!   req    <buf>                hickory_server::server::Request::from_bytes
//!
//! Implementation output on success is a canonical field-by-field dump (the Lean driver prints
//! the same dump from the model's value), `err` on any `Err`.
use std::net::SocketAddr;
use std::sync::atomic::{AtomicU64, Ordering};
use std::sync::{Arc, Mutex};
use std::time::{Duration, Instant};

use hickory_net::xfer::Protocol;
use hickory_proto::dnssec::rdata::DNSSECRData;
use hickory_proto::dnssec::PublicKey;
use hickory_proto::op::{Edns, Message, MessageType, OpCode, Query};
use hickory_proto::rr::rdata::opt::{EdnsCode, EdnsOption};
use hickory_proto::rr::rdata::{A, AAAA, ANAME, CNAME, HINFO, MX, NS, NULL, OPT, PTR, SOA, SRV, TXT};
use hickory_proto::rr::{DNSClass, Name, RData, Record, RecordType};
use hickory_proto::serialize::binary::{BinDecodable, BinDecoder};
use hickory_server::server::Request;

use crate::common::*;

/// per-case time budget of the "no hang" clause (inputs are ≤ 64 KiB)
const BUDGET: Duration = Duration::from_secs(2);
/// the watchdog declares a true hang when one case makes no progress for this long
/// (quick / thorough); the slowest legitimate case (64 KiB, maximal pointer chains) takes < 1 s
const STUCK_QUICK: Duration = Duration::from_secs(10);
const STUCK_THOROUGH: Duration = Duration::from_secs(30);

/// record types whose RDATA codec has no Lean model (must equal `Wire.unmodelled`); empty since
/// stage 3c — kept so that a codec added to hickory can be run implementation-only first
const UNMODELLED: &[u16] = &[];

/// every RecordType code hickory knows, plus a few it does not
const ALL_TYPES: &[u16] = &[
    1, 28, 65305, 255, 251, 252, 257, 59, 60, 37, 5, 62, 48, 43, 13, 65, 25, 15, 35, 2, 47, 50, 51, 10, 61, 41, 12, 46,
    24, 53, 6, 33, 44, 64, 52, 250, 16, 0, 3, 11, 99, 256, 65280, 65535,
];

fn modelled(t: u16) -> bool {
    !UNMODELLED.contains(&t)
}

// ---------------------------------------------------------------- canonical dump

fn show_opt_val(o: &EdnsOption) -> String {
    match o {
        EdnsOption::DAU(algs) => {
            let v: Vec<u8> = algs.iter().map(u8::from).collect();
            format!("D{}", hex(&v))
        }
        EdnsOption::Subnet(s) => {
            let (fam, oct) = match s.addr() {
                std::net::IpAddr::V4(a) => (1, a.octets().to_vec()),
                std::net::IpAddr::V6(a) => (2, a.octets().to_vec()),
            };
            format!("S{}.{}.{}.{}", fam, s.source_prefix(), s.scope_prefix(), hex(&oct))
        }
        EdnsOption::NSID(p) => format!("N{}", hex(p.as_ref())),
        EdnsOption::Unknown(c, d) => format!("U{}.{}", c, hex(d)),
        _ => "?".into(),
    }
}

fn show_opts(o: &[(EdnsCode, EdnsOption)]) -> String {
    o.iter().map(|(c, v)| format!("{}={}", u16::from(*c), show_opt_val(v))).collect::<Vec<_>>().join(";")
}

fn show_rdata(d: &RData) -> String {
    match d {
        RData::A(a) => format!("A:{}", hex(&a.0.octets())),
        RData::AAAA(a) => format!("AAAA:{}", hex(&a.0.octets())),
        RData::ANAME(n) => format!("N:{}", name_tok(&n.0)),
        RData::CNAME(n) => format!("N:{}", name_tok(&n.0)),
        RData::NS(n) => format!("N:{}", name_tok(&n.0)),
        RData::PTR(n) => format!("N:{}", name_tok(&n.0)),
        RData::MX(m) => format!("MX:{}:{}", m.preference, name_tok(&m.exchange)),
        RData::SOA(s) => format!(
            "SOA:{}:{}:{}:{}:{}:{}:{}",
            name_tok(&s.mname),
            name_tok(&s.rname),
            s.serial,
            s.refresh,
            s.retry,
            s.expire,
            s.minimum
        ),
        RData::TXT(t) => format!("TXT:{}", t.txt_data.iter().map(|s| hex(s)).collect::<Vec<_>>().join("|")),
        RData::SRV(s) => format!("SRV:{}:{}:{}:{}", s.priority, s.weight, s.port, name_tok(&s.target)),
        RData::HINFO(h) => format!("HINFO:{}:{}", hex(&h.cpu), hex(&h.os)),
        RData::NULL(n) => format!("NULL:{}", hex(&n.anything)),
        RData::Unknown { code, rdata } => format!("UNK:{}:{}", u16::from(*code), hex(&rdata.anything)),
        RData::OPT(o) => format!("OPT:{}", show_opts(o.as_ref())),
        RData::Update0(t) => format!("UPD0:{}", u16::from(*t)),
        #[allow(deprecated)]
        RData::ZERO => "ZERO".into(),
        RData::TSIG(t) => show_tsig(t),
        RData::DNSSEC(DNSSECRData::DS(d)) => {
            format!("DS:{}:{}:{}:{}", d.key_tag(), u8::from(d.algorithm()), u8::from(d.digest_type()), hex(d.digest()))
        }
        RData::DNSSEC(DNSSECRData::CDS(d)) => format!(
            "DS:{}:{}:{}:{}",
            d.key_tag(),
            d.algorithm().map(u8::from).unwrap_or(0),
            u8::from(d.digest_type()),
            hex(d.digest())
        ),
        RData::DNSSEC(DNSSECRData::DNSKEY(k)) => format!(
            "DNSKEY:{}:{}:{}",
            k.flags(),
            u8::from(k.public_key().algorithm()),
            hex(k.public_key().public_bytes())
        ),
        RData::DNSSEC(DNSSECRData::CDNSKEY(k)) => format!(
            "DNSKEY:{}:{}:{}",
            k.flags(),
            k.algorithm().map(u8::from).unwrap_or(0),
            match k.public_key() {
                Some(pk) => hex(pk.public_bytes()),
                None => "!".into(),
            }
        ),
        RData::DNSSEC(DNSSECRData::RRSIG(s)) => show_sig_rdata(s),
        RData::DNSSEC(DNSSECRData::SIG(s)) => show_sig_rdata(s),
        RData::DNSSEC(DNSSECRData::NSEC(n)) => {
            format!("NSEC:{}:{}", name_tok(n.next_domain_name()), show_types(n.type_bit_maps()))
        }
        RData::DNSSEC(DNSSECRData::NSEC3(n)) => format!(
            "NSEC3:{}:{}:{}:{}:{}:{}",
            b(n.opt_out()),
            n.iterations(),
            hex(n.salt()),
            hex(n.next_hashed_owner_name()),
            match n.next_hashed_owner_name_base32() {
                Some(l) => hex(l.as_bytes()),
                None => "!".into(),
            },
            show_types(n.type_bit_maps())
        ),
        RData::DNSSEC(DNSSECRData::NSEC3PARAM(n)) => {
            format!("NSEC3PARAM:{}:{}:{}", b(n.opt_out()), n.iterations(), hex(n.salt()))
        }
        RData::CERT(c) => format!(
            "CERT:{}:{}:{}:{}",
            u16::from(c.cert_type),
            c.key_tag,
            u8::from(c.algorithm),
            hex(&c.cert_data)
        ),
        RData::CSYNC(c) => format!("CSYNC:{}:{}:{}", c.soa_serial, c.flags(), show_types(c.type_bit_maps.iter())),
        RData::TLSA(t) => show_tlsa(t),
        RData::SMIMEA(t) => show_tlsa(&t.0),
        RData::SSHFP(x) => format!(
            "SSHFP:{}:{}:{}",
            u8::from(x.algorithm),
            u8::from(x.fingerprint_type),
            hex(&x.fingerprint)
        ),
        RData::OPENPGPKEY(k) => format!("OPENPGPKEY:{}", hex(&k.public_key)),
        RData::DNSSEC(DNSSECRData::KEY(k)) => format!(
            "KEY:{}:{}:{}:{}",
            k.flags(),
            u8::from(k.protocol()),
            u8::from(k.algorithm()),
            hex(k.public_key())
        ),
        RData::SVCB(x) => show_svcb(x),
        RData::HTTPS(x) => show_svcb(&x.0),
        RData::CAA(c) => format!(
            "CAA:{}:{}:{}:{}",
            b(c.issuer_critical),
            c.reserved_flags,
            hex(c.tag.as_bytes()),
            hex(&c.value)
        ),
        RData::NAPTR(n) => format!(
            "NAPTR:{}:{}:{}:{}:{}:{}",
            n.order,
            n.preference,
            hex(&n.flags),
            hex(&n.services),
            hex(&n.regexp),
            name_tok(&n.replacement)
        ),
        other => format!("X{}:?", u16::from(other.record_type())),
    }
}

fn show_types(it: impl Iterator<Item = RecordType>) -> String {
    it.map(|t| u16::from(t).to_string()).collect::<Vec<_>>().join(".")
}

fn show_tsig(t: &hickory_proto::rr::rdata::TSIG) -> String {
    format!(
        "TSIG:{}:{}:{}:{}:{}:{}:{}",
        name_tok(&t.algorithm.to_name()),
        t.time,
        t.fudge,
        hex(&t.mac),
        t.oid,
        t.error.map(u16::from).unwrap_or(0),
        hex(&t.other)
    )
}

fn show_sig_rdata(s: &hickory_proto::dnssec::rdata::SIG) -> String {
    let i = s.input();
    format!(
        "SIG:{}:{}:{}:{}:{}:{}:{}:{}:{}",
        u16::from(i.type_covered),
        u8::from(i.algorithm),
        i.num_labels,
        i.original_ttl,
        i.sig_expiration.get(),
        i.sig_inception.get(),
        i.key_tag,
        name_tok(&i.signer_name),
        hex(s.sig())
    )
}

fn show_svcb(x: &hickory_proto::rr::rdata::SVCB) -> String {
    use hickory_proto::rr::rdata::svcb::SvcParamValue as V;
    let ps: Vec<String> = x
        .svc_params
        .iter()
        .map(|(k, v)| {
            let vs = match v {
                V::Mandatory(m) => format!("M{}", m.0.iter().map(|k| u16::from(*k).to_string()).collect::<Vec<_>>().join(".")),
                V::Alpn(a) => format!("A{}", a.0.iter().map(|s| hex(s.as_bytes())).collect::<Vec<_>>().join("|")),
                V::NoDefaultAlpn => "N".to_string(),
                V::Port(p) => format!("P{p}"),
                V::Ipv4Hint(h) => {
                    let v: Vec<u8> = h.0.iter().flat_map(|a| a.0.octets()).collect();
                    format!("4{}", hex(&v))
                }
                V::EchConfigList(e) => format!("E{}", hex(&e.0)),
                V::Ipv6Hint(h) => {
                    let v: Vec<u8> = h.0.iter().flat_map(|a| a.0.octets()).collect();
                    format!("6{}", hex(&v))
                }
                V::Unknown(u) => format!("U{}", hex(&u.0)),
            };
            format!("{}={}", u16::from(*k), vs)
        })
        .collect();
    format!("SVCB:{}:{}:{}", x.svc_priority, name_tok(&x.target_name), ps.join(";"))
}

fn show_tlsa(t: &hickory_proto::rr::rdata::TLSA) -> String {
    format!(
        "TLSA:{}:{}:{}:{}",
        u8::from(t.cert_usage),
        u8::from(t.selector),
        u8::from(t.matching),
        hex(&t.cert_data)
    )
}

pub(crate) fn show_record(r: &Record) -> String {
    format!(
        "R({},{},{},{},{})",
        name_tok(&r.name),
        u16::from(r.record_type()),
        u16::from(r.dns_class),
        r.ttl,
        show_rdata(&r.data)
    )
}

pub(crate) fn show_query(q: &Query) -> String {
    format!("Q({},{},{})", name_tok(&q.name), u16::from(q.query_type), u16::from(q.query_class))
}

pub(crate) fn show_md(m: &hickory_proto::op::Metadata) -> String {
    format!(
        "H({},{},{},{},{},{},{},{},{},{})",
        m.id,
        b(m.message_type == MessageType::Response),
        u8::from(m.op_code),
        b(m.authoritative),
        b(m.truncation),
        b(m.recursion_desired),
        b(m.recursion_available),
        b(m.authentic_data),
        b(m.checking_disabled),
        u16::from(m.response_code)
    )
}

pub(crate) fn show_edns(e: Option<&Edns>) -> String {
    match e {
        None => "-".into(),
        Some(e) => format!(
            "{},{},{},{},{},{}",
            e.rcode_high(),
            e.version(),
            b(e.flags().dnssec_ok),
            e.flags().z,
            e.max_payload(),
            show_opts(e.options().as_ref())
        ),
    }
}

fn show_recs(rs: &[Record]) -> String {
    rs.iter().map(show_record).collect::<Vec<_>>().join(",")
}

pub(crate) fn show_sig(s: Option<&Record<hickory_proto::rr::rdata::TSIG>>) -> String {
    match s {
        None => "-".into(),
        Some(r) => format!("R({},250,{},{},{})", name_tok(&r.name), u16::from(r.dns_class), r.ttl, show_tsig(&r.data)),
    }
}

pub(crate) fn show_message(m: &Message) -> String {
    format!(
        "{} Q[{}] AN[{}] NS[{}] AR[{}] SIG[{}] EDNS[{}]",
        show_md(&m.metadata),
        m.queries.iter().map(show_query).collect::<Vec<_>>().join(","),
        show_recs(&m.answers),
        show_recs(&m.authorities),
        show_recs(&m.additionals),
        show_sig(m.signature.as_deref()),
        show_edns(m.edns.as_ref())
    )
}

fn show_request(m: &Request) -> String {
    format!(
        "{} Q[{}] RAW[{}] AN[{}] NS[{}] AR[{}] SIG[{}] EDNS[{}]",
        show_md(&m.metadata),
        show_query(m.queries.original()),
        hex(m.queries.as_bytes()),
        show_recs(&m.answers),
        show_recs(&m.authorities),
        show_recs(&m.additionals),
        show_sig(m.signature.as_deref()),
        show_edns(m.edns.as_ref())
    )
}

// ---------------------------------------------------------------- the property's oracle on values

fn wire_len(n: &Name) -> usize {
    n.iter().map(|l| l.len() + 1).sum::<usize>() + 1
}

fn check_name(n: &Name, fails: &mut Vec<String>) {
    if wire_len(n) > 255 {
        fails.push(format!("decoded name exceeds 255 octets ({}): {}", wire_len(n), name_tok(n)));
    }
    if n.iter().any(|l| l.len() > 63 || l.is_empty()) {
        fails.push(format!("decoded name has a label outside 1..=63: {}", name_tok(n)));
    }
}

fn rdata_names<'a>(d: &'a RData, out: &mut Vec<Name>) {
    match d {
        RData::ANAME(n) => out.push(n.0.clone()),
        RData::CNAME(n) => out.push(n.0.clone()),
        RData::NS(n) => out.push(n.0.clone()),
        RData::PTR(n) => out.push(n.0.clone()),
        RData::MX(m) => out.push(m.exchange.clone()),
        RData::SOA(s) => {
            out.push(s.mname.clone());
            out.push(s.rname.clone());
        }
        RData::SRV(s) => out.push(s.target.clone()),
        RData::NAPTR(n) => out.push(n.replacement.clone()),
        RData::SVCB(s) => out.push(s.target_name.clone()),
        RData::HTTPS(s) => out.push(s.0.target_name.clone()),
        RData::TSIG(t) => out.push(t.algorithm.to_name()),
        RData::DNSSEC(DNSSECRData::RRSIG(s)) => out.push(s.input().signer_name.clone()),
        RData::DNSSEC(DNSSECRData::SIG(s)) => out.push(s.input().signer_name.clone()),
        RData::DNSSEC(DNSSECRData::NSEC(n)) => out.push(n.next_domain_name().clone()),
        _ => {}
    }
}

/// Second-stage parsers that the public API applies to octets taken verbatim from the wire:
/// `CAA::value_as_issue` / `value_as_iodef` (`read_issuer`: name text + `;key=value` state machine,
/// `read_iodef`: URL).  Oracle: no panic; a name they return obeys the bounds.
fn post_parsers(d: &RData, fails: &mut Vec<String>, stats: &mut Vec<String>) {
    if let RData::CAA(c) = d {
        use hickory_proto::rr::rdata::caa::{read_iodef, read_issuer};
        match catch(|| (c.value_as_issue().map(|(n, kv)| (n, kv.len())), c.value_as_iodef().is_ok())) {
            Ok((iss, iodef)) => {
                stats.push(format!("caa.value_as_issue.{}", if iss.is_ok() { "ok" } else { "err" }));
                stats.push(format!("caa.value_as_iodef.{}", if iodef { "ok" } else { "err" }));
                if let Ok((Some(n), _)) = &iss {
                    check_name(n, fails);
                }
            }
            Err(p) => fails.push(format!("panic in CAA::value_as_issue/value_as_iodef on wire value {}: {p}", hex(&c.value))),
        }
        // the parsers are public and tag-independent
        match catch(|| (read_issuer(&c.value).map(|(n, kv)| (n, kv.iter().map(|k| k.key().len() + k.value().len()).sum::<usize>())), read_iodef(&c.value).is_ok())) {
            Ok((iss, iodef)) => {
                stats.push(format!("caa.read_issuer.{}", if iss.is_ok() { "ok" } else { "err" }));
                stats.push(format!("caa.read_iodef.{}", if iodef { "ok" } else { "err" }));
                if let Ok((Some(n), _)) = &iss {
                    check_name(n, fails);
                }
            }
            Err(p) => fails.push(format!("panic in caa::read_issuer/read_iodef on wire value {}: {p}", hex(&c.value))),
        }
    }
}

fn check_record(r: &Record, fails: &mut Vec<String>) {
    check_name(&r.name, fails);
    let mut v = vec![];
    rdata_names(&r.data, &mut v);
    for n in &v {
        check_name(n, fails);
    }
    let mut st = vec![];
    post_parsers(&r.data, fails, &mut st);
}

fn check_sections(q: &[&Query], secs: &[&[Record]], sig: Option<&Record<hickory_proto::rr::rdata::TSIG>>, fails: &mut Vec<String>) {
    for q in q {
        check_name(&q.name, fails);
    }
    for s in secs {
        for r in *s {
            check_record(r, fails);
        }
    }
    if let Some(s) = sig {
        check_name(&s.name, fails);
        check_name(&s.data.algorithm.to_name(), fails);
    }
}

// ---------------------------------------------------------------- which cases have a model side

fn u16_at(b: &[u8], i: usize) -> Option<u16> {
    Some(u16::from_be_bytes([*b.get(i)?, *b.get(i + 1)?]))
}

/// Offsets of the records of a message as far as they can be walked with the real `Name::read`:
/// `(record start, type code, rdata start, rdata end)`; stops at the first thing that does not parse.
fn walk(buf: &[u8]) -> (Vec<usize>, Vec<(usize, u16, usize, usize)>) {
    let mut qs = vec![];
    let mut rs = vec![];
    if buf.len() < 12 {
        return (qs, rs);
    }
    let qd = u16_at(buf, 4).unwrap() as usize;
    let n = u16_at(buf, 6).unwrap() as usize + u16_at(buf, 8).unwrap() as usize + u16_at(buf, 10).unwrap() as usize;
    let d0 = BinDecoder::new(buf);
    let mut pos = 12usize;
    for _ in 0..qd.min(4096) {
        if pos > 0xFFFF || pos > buf.len() {
            return (qs, rs);
        }
        let mut d = d0.clone(pos as u16);
        if Name::read(&mut d).is_err() || d.len() < 4 {
            return (qs, rs);
        }
        qs.push(pos);
        pos = d.index() + 4;
    }
    for _ in 0..n.min(8192) {
        if pos > 0xFFFF || pos > buf.len() {
            break;
        }
        let mut d = d0.clone(pos as u16);
        if Name::read(&mut d).is_err() {
            break;
        }
        let i = d.index();
        let (Some(t), Some(len)) = (u16_at(buf, i), u16_at(buf, i + 8)) else {
            // type readable but header truncated: still report the type
            if let Some(t) = u16_at(buf, i) {
                rs.push((pos, t, buf.len(), buf.len()));
            }
            break;
        };
        let (s, e) = (i + 10, i + 10 + len as usize);
        rs.push((pos, t, s.min(buf.len()), e.min(buf.len())));
        if e > buf.len() {
            break;
        }
        pos = e;
    }
    (qs, rs)
}

/// A message case has a model side unless the walk meets a record of an unmodelled type with
/// RDLENGTH > 0 (RDLENGTH 0 never reaches the RDATA codec).
fn msg_has_model(buf: &[u8], is_req: bool) -> bool {
    if is_req && buf.len() >= 12 && u16_at(buf, 4) != Some(1) {
        return true;
    }
    let (_, rs) = walk(buf);
    !rs.iter().any(|(_, t, s, e)| !modelled(*t) && e > s)
}

// ---------------------------------------------------------------- exec

struct Watch {
    progress: AtomicU64,
    current: Mutex<String>,
}

fn timed<T>(f: impl FnOnce() -> T) -> (T, Duration) {
    let t0 = Instant::now();
    let v = f();
    (v, t0.elapsed())
}

/// Like `timed`, but a run that exceeds the budget is repeated (twice at most) and the fastest run
/// counts, so that a scheduling hiccup on a loaded machine is not reported as a hang.
fn timed_retry<T>(mut f: impl FnMut() -> T) -> (T, Duration) {
    let (mut v, mut dt) = timed(&mut f);
    let mut tries = 0;
    while dt > BUDGET && tries < 2 {
        let (v2, dt2) = timed(&mut f);
        if dt2 < dt {
            dt = dt2;
        }
        v = v2;
        tries += 1;
    }
    (v, dt)
}

fn size_bucket(n: usize) -> &'static str {
    match n {
        0..=11 => "0-11",
        12..=63 => "12-63",
        64..=255 => "64-255",
        256..=1023 => "256-1023",
        1024..=8191 => "1k-8k",
        _ => "8k-64k",
    }
}

/// (implementation output, oracle failures, nontrivial, stats)
fn exec_inner(t: &[&str]) -> Option<(String, Vec<String>, bool, Vec<String>)> {
    let mut fails = vec![];
    let mut stats = vec![];
    let op = t[0].trim_end_matches('!');
    let force_impl_only = t[0].ends_with('!');
    let mut nontrivial = false;
    let mut has_model = !force_impl_only;
    let out = match (op, &t[1..]) {
        ("name", [buf, pos]) => {
            let buf = unhex(buf)?;
            let pos: usize = pos.parse().ok()?;
            if pos > buf.len() || pos > 0xFFFF || buf.len() > 0xFFFF {
                return None;
            }
            let d0 = BinDecoder::new(&buf);
            let mut d = d0.clone(pos as u16);
            let (r, dt) = timed(|| Name::read(&mut d));
            if dt > BUDGET {
                fails.push(format!("Name::read took {dt:?} (> {BUDGET:?}) on {} bytes", buf.len()));
            }
            stats.push(format!("name.{}", if r.is_ok() { "ok" } else { "err" }));
            match &r {
                Ok(n) => {
                    check_name(n, &mut fails);
                    if d.index() > buf.len() || d.index() <= pos {
                        fails.push(format!("Name::read left the decoder at {} (start {pos}, len {})", d.index(), buf.len()));
                    }
                    nontrivial = buf[pos..d.index().min(buf.len())].iter().any(|b| *b >= 0xC0);
                    format!("ok {} {}", name_tok(n), d.index())
                }
                Err(_) => "err".into(),
            }
        }
        ("rdata", [ty, buf, pos]) => {
            let ty: u16 = ty.parse().ok()?;
            let buf = unhex(buf)?;
            let pos: usize = pos.parse().ok()?;
            if pos > buf.len() || pos > 0xFFFF || buf.len() > 0xFFFF {
                return None;
            }
            has_model &= modelled(ty);
            let d0 = BinDecoder::new(&buf);
            let d = d0.clone(pos as u16);
            let (r, dt) = timed(|| RData::read(d, RecordType::from(ty)));
            if dt > BUDGET {
                fails.push(format!("RData::read({ty}) took {dt:?} (> {BUDGET:?}) on {} bytes", buf.len()));
            }
            stats.push(format!("rdata.type.{ty}.{}", if r.is_ok() { "ok" } else { "err" }));
            match &r {
                Ok(d) => {
                    let mut v = vec![];
                    rdata_names(d, &mut v);
                    v.iter().for_each(|n| check_name(n, &mut fails));
                    if u16::from(d.record_type()) != ty {
                        fails.push(format!("RData::read({ty}) produced a value of type {}", u16::from(d.record_type())));
                    }
                    post_parsers(d, &mut fails, &mut stats);
                    if ty == 37 {
                        // alternative public entry point to the same codec
                        match catch(|| hickory_proto::rr::rdata::CERT::try_from(&buf[pos..]).map(|c| show_rdata(&RData::CERT(c)))) {
                            Ok(Ok(s2)) => {
                                stats.push("cert.try_from.ok".into());
                                if s2 != show_rdata(d) {
                                    fails.push("CERT::try_from(&[u8]) and RData::read(CERT) differ".into());
                                }
                            }
                            Ok(Err(_)) => fails.push("CERT::try_from(&[u8]) rejects what RData::read(CERT) accepts".into()),
                            Err(p) => fails.push(format!("panic in CERT::try_from: {p}")),
                        }
                    }
                    nontrivial = true;
                    format!("ok {}", show_rdata(d))
                }
                Err(_) => {
                    if ty == 37 {
                        match catch(|| hickory_proto::rr::rdata::CERT::try_from(&buf[pos..]).is_ok()) {
                            Ok(false) => stats.push("cert.try_from.err".into()),
                            Ok(true) => fails.push("CERT::try_from(&[u8]) accepts what RData::read(CERT) rejects".into()),
                            Err(p) => fails.push(format!("panic in CERT::try_from: {p}")),
                        }
                    }
                    "err".into()
                }
            }
        }
        ("readq", [n, buf, pos]) => {
            let n: usize = n.parse().ok()?;
            let buf = unhex(buf)?;
            let pos: usize = pos.parse().ok()?;
            if pos > buf.len() || pos > 0xFFFF || buf.len() > 0xFFFF || n > 0xFFFF {
                return None;
            }
            let d0 = BinDecoder::new(&buf);
            let mut d = d0.clone(pos as u16);
            let (r, dt) = timed(|| Message::read_queries(&mut d, n));
            if dt > BUDGET {
                fails.push(format!("Message::read_queries took {dt:?}"));
            }
            match &r {
                Ok(qs) => {
                    qs.iter().for_each(|q| check_name(&q.name, &mut fails));
                    stats.push("readq.ok".into());
                    nontrivial = !qs.is_empty();
                    format!("ok [{}] {}", qs.iter().map(show_query).collect::<Vec<_>>().join(","), d.index())
                }
                Err(_) => {
                    stats.push("readq.err".into());
                    "err".into()
                }
            }
        }
        ("record", [buf, pos]) => {
            let buf = unhex(buf)?;
            let pos: usize = pos.parse().ok()?;
            if pos > buf.len() || pos > 0xFFFF || buf.len() > 0xFFFF {
                return None;
            }
            // model side only if the record's type (as far as it can be read) is modelled
            {
                let d0 = BinDecoder::new(&buf);
                let mut d = d0.clone(pos as u16);
                if Name::read(&mut d).is_ok() {
                    if let (Some(ty), Some(len)) = (u16_at(&buf, d.index()), u16_at(&buf, d.index() + 8)) {
                        if !modelled(ty) && len > 0 {
                            has_model = false;
                        }
                    }
                }
            }
            let d0 = BinDecoder::new(&buf);
            let mut d = d0.clone(pos as u16);
            let (r, dt) = timed(|| Record::read(&mut d));
            if dt > BUDGET {
                fails.push(format!("Record::read took {dt:?} (> {BUDGET:?}) on {} bytes", buf.len()));
            }
            match &r {
                Ok(rec) => {
                    check_record(rec, &mut fails);
                    stats.push(format!("record.ok.type.{}", u16::from(rec.record_type())));
                    nontrivial = true;
                    format!("ok {} {}", show_record(rec), d.index())
                }
                Err(_) => {
                    stats.push("record.err".into());
                    "err".into()
                }
            }
        }
        ("msg", [buf]) => {
            let buf = unhex(buf)?;
            if buf.len() > 0xFFFF {
                return None;
            }
            has_model &= msg_has_model(&buf, false);
            // other entry points that take the same network bytes (implementation-vs-oracle only):
            // the client's DnsResponse::from_buffer and the TSIG "to be signed" extraction, which
            // re-parses the message (rr/rdata/tsig.rs signed_bitmessage_to_buf)
            match catch(|| hickory_proto::op::DnsResponse::from_buffer(buf.clone()).is_ok()) {
                Ok(ok) => {
                    let want = Message::from_vec(&buf).map(|m| m.metadata.message_type == MessageType::Response).unwrap_or(false);
                    if ok != want {
                        fails.push(format!("DnsResponse::from_buffer is_ok()={ok} but Message::from_vec says response={want}"));
                    }
                }
                Err(p) => fails.push(format!("panic in DnsResponse::from_buffer: {p}")),
            }
            for (prev, first) in [(None, true), (Some(&[7u8; 32][..]), false)] {
                match catch(|| hickory_proto::rr::rdata::tsig::signed_bitmessage_to_buf(&buf, prev, first).map(|(tbs, rr)| (tbs.len(), rr.name.clone()))) {
                    Ok(Ok((_, n))) => {
                        stats.push("tsigtbs.ok".into());
                        check_name(&n, &mut fails);
                    }
                    Ok(Err(_)) => stats.push("tsigtbs.err".into()),
                    Err(p) => fails.push(format!("panic in signed_bitmessage_to_buf(first_message={first}): {p}")),
                }
            }
            let (r, dt) = timed_retry(|| Message::from_vec(&buf));
            if dt > BUDGET {
                fails.push(format!("Message::from_vec took {dt:?} (> {BUDGET:?}) on {} bytes", buf.len()));
            }
            stats.push(format!("msg.size.{}", size_bucket(buf.len())));
            match &r {
                Ok(m) => {
                    let qs: Vec<&Query> = m.queries.iter().collect();
                    check_sections(&qs, &[&m.answers, &m.authorities, &m.additionals], m.signature.as_deref(), &mut fails);
                    stats.push("msg.ok".into());
                    // accessors computed from decoded fields
                    let want_mp = m.edns.as_ref().map_or(512, |e| e.max_payload().max(512));
                    if m.max_payload() != want_mp || m.version() != m.edns.as_ref().map_or(0, |e| e.version()) {
                        fails.push("Message::max_payload / version disagree with the decoded EDNS".into());
                    }
                    // Display / Debug of a decoded message (what a server logs): outside the property,
                    // counted only
                    if catch(|| format!("{m}").len() + format!("{m:?}").len()).is_err() {
                        stats.push("info.display-panic.msg".into());
                    }
                    for r in m.all_sections() {
                        stats.push(format!("msg.ok.rtype.{}", u16::from(r.record_type())));
                    }
                    if m.edns.is_some() {
                        stats.push("msg.ok.edns".into());
                    }
                    if m.signature.is_some() {
                        stats.push("msg.ok.tsig".into());
                    }
                    let compressed = buf[12.min(buf.len())..].iter().any(|b| *b >= 0xC0);
                    nontrivial = compressed && m.all_sections().count() > 0;
                    format!("ok {}", show_message(m))
                }
                Err(e) => {
                    stats.push(format!("msg.err.{}", err_kind(e)));
                    "err".into()
                }
            }
        }
        ("req", [buf]) => {
            let buf = unhex(buf)?;
            if buf.len() > 0xFFFF {
                return None;
            }
            has_model &= msg_has_model(&buf, true);
            let src: SocketAddr = "192.0.2.1:5353".parse().unwrap();
            let (r, dt) = timed_retry(|| Request::from_bytes(buf.clone(), src, Protocol::Udp));
            if dt > BUDGET {
                fails.push(format!("Request::from_bytes took {dt:?} (> {BUDGET:?}) on {} bytes", buf.len()));
            }
            match &r {
                Ok(m) => {
                    check_sections(
                        &[m.queries.original()],
                        &[&m.answers, &m.authorities, &m.additionals],
                        m.signature.as_deref(),
                        &mut fails,
                    );
                    stats.push("req.ok".into());
                    let want_mp = m.edns.as_ref().map_or(512, |e| e.max_payload().max(512));
                    if m.max_payload() != want_mp || m.version() != m.edns.as_ref().map_or(0, |e| e.version()) {
                        fails.push("MessageRequest::max_payload / version disagree with the decoded EDNS".into());
                    }
                    let info = m.request_info();
                    if info.query.original() != m.queries.original() || m.as_slice() != &buf[..] || info.metadata.id != m.metadata.id {
                        fails.push("Request::request_info / as_slice do not reflect the decoded request".into());
                    }
                    if catch(|| format!("{:?}", m).len()).is_err() {
                        stats.push("info.display-panic.req".into());
                    }
                    nontrivial = true;
                    format!("ok {}", show_request(m))
                }
                Err(_) => {
                    stats.push("req.err".into());
                    "err".into()
                }
            }
        }
        _ => return None,
    };
    stats.push(format!("op.{op}"));
    if !has_model {
        stats.push(format!("impl-only.{op}"));
        return Some(("~".into(), fails, nontrivial, stats));
    }
    Some((out, fails, nontrivial, stats))
}

fn err_kind(e: &hickory_proto::serialize::binary::DecodeError) -> String {
    let s = format!("{e:?}");
    s.split(|c: char| !c.is_ascii_alphanumeric()).next().unwrap_or("?").to_string()
}

fn exec(line: &str, rec: &mut Recorder, w: &Watch) {
    *w.current.lock().unwrap() = line.to_string();
    let t: Vec<&str> = line.split_whitespace().collect();
    if t.is_empty() {
        return;
    }
    match catch(|| exec_inner(&t)) {
        Ok(Some((out, fails, nontrivial, stats))) => {
            if out == "~" {
                rec.impl_only += 1;
            }
            let idx = rec.case(line.to_string(), out);
            for s in stats {
                rec.stat(&s);
            }
            if nontrivial {
                rec.nontrivial(idx);
            }
            for f in fails {
                rec.fail(idx, f, "");
            }
        }
        Ok(None) => rec.stat("skipped.unparsable-case"),
        Err(p) => {
            let idx = rec.case(line.to_string(), format!("panic {p}"));
            rec.stat("panic");
            rec.fail(idx, format!("panic: {p}"), "");
        }
    }
    w.progress.fetch_add(1, Ordering::SeqCst);
}

// ---------------------------------------------------------------- generators

const LABELS: &[&[u8]] = &[b"www", b"example", b"com", b"net", b"a", b"mail", b"ns1", b"_tcp", b"_sip", b"xn--abc", b"EXAMPLE", b"*"];

pub(crate) fn gen_name(r: &mut Rng) -> Name {
    let n = match r.below(10) {
        0 => 0,
        1..=6 => r.range(1, 4),
        7 | 8 => r.range(4, 8),
        _ => r.range(8, 40),
    };
    let mut labels: Vec<Vec<u8>> = vec![];
    let mut total = 1usize;
    for _ in 0..n {
        let l: Vec<u8> = match r.below(8) {
            0 => {
                let len = r.range(1, 63) as usize;
                r.bytes(len)
            }
            1 => vec![b'x'; *r.pick(&[1usize, 62, 63])],
            _ => r.pick(LABELS).to_vec(),
        };
        if total + l.len() + 1 > 255 {
            break;
        }
        total += l.len() + 1;
        labels.push(l);
    }
    // a common suffix makes the encoder emit compression pointers
    if r.chance(2, 3) && total + 13 <= 255 {
        labels.push(b"example".to_vec());
        labels.push(b"com".to_vec());
    }
    let mut n = Name::from_labels(labels.iter().map(|l| &l[..])).unwrap_or_else(|_| Name::root());
    n.set_fqdn(true);
    n
}

fn wire_name(n: &Name) -> Vec<u8> {
    let mut v = vec![];
    for l in n.iter() {
        v.push(l.len() as u8);
        v.extend_from_slice(l);
    }
    v.push(0);
    v
}

fn pickb(r: &mut Rng, xs: &[&[u8]]) -> Vec<u8> {
    xs[r.below(xs.len() as u64) as usize].to_vec()
}

fn cstr(r: &mut Rng, max: usize) -> Vec<u8> {
    let n = r.below(max as u64 + 1) as usize;
    let mut v = vec![n as u8];
    v.extend(r.bytes(n));
    v
}

fn bitmaps(r: &mut Rng) -> Vec<u8> {
    let mut v = vec![];
    let mut w = 0u16;
    for _ in 0..r.range(0, 3) {
        if w > 255 {
            break;
        }
        let len = r.range(1, 32) as usize;
        v.push(w as u8);
        v.push(len as u8);
        let mut bytes = r.bytes(len);
        if bytes[len - 1] == 0 {
            bytes[len - 1] = 1;
        }
        v.extend(bytes);
        w += r.range(1, 100) as u16;
    }
    v
}

/// hand-assembled well-formed RDATA of the types that are built from wire seeds
pub(crate) fn seed_rdata(r: &mut Rng, ty: u16) -> Vec<u8> {
    let mut v = vec![];
    match ty {
        43 | 59 => {
            v.extend(r.bytes(2));
            v.push(*r.pick(&[8u8, 13, 15, 5]));
            let (dt, n) = *r.pick(&[(1u8, 20usize), (2, 32), (4, 48)]);
            v.push(dt);
            v.extend(r.bytes(n));
        }
        48 | 60 => {
            v.extend([*r.pick(&[1u8, 0]), *r.pick(&[0u8, 1, 0x80])]);
            v.push(3);
            v.push(*r.pick(&[8u8, 13, 15, 14]));
            let n = r.range(1, 80) as usize;
            v.extend(r.bytes(n));
        }
        25 => {
            v.extend([0, 0]);
            v.push(3);
            v.push(*r.pick(&[8u8, 13, 5]));
            let n = r.range(0, 40) as usize;
            v.extend(r.bytes(n));
        }
        46 | 24 => {
            v.extend(r.pick(&[1u16, 2, 6, 15, 48]).to_be_bytes());
            v.push(*r.pick(&[8u8, 13, 15]));
            v.push(r.below(5) as u8);
            v.extend(r.bytes(12));
            v.extend(r.bytes(2));
            v.extend(wire_name(&gen_name(r)));
            let n = r.range(0, 70) as usize;
            v.extend(r.bytes(n));
        }
        47 => {
            v.extend(wire_name(&gen_name(r)));
            v.extend(bitmaps(r));
        }
        50 => {
            v.push(1);
            v.push(r.below(2) as u8);
            v.extend((r.below(20) as u16).to_be_bytes());
            v.extend(cstr(r, 8));
            let h = r.range(1, 32) as usize;
            v.push(h as u8);
            v.extend(r.bytes(h));
            v.extend(bitmaps(r));
        }
        51 => {
            v.push(1);
            v.push(0);
            v.extend((r.below(20) as u16).to_be_bytes());
            v.extend(cstr(r, 8));
        }
        250 => {
            v.extend(wire_name(&Name::from_ascii(*r.pick(&["hmac-sha256.", "hmac-sha512.", "hmac-md5.sig-alg.reg.int.", "custom.alg."])).unwrap()));
            v.extend([0, 0]);
            v.extend(r.bytes(4));
            v.extend(300u16.to_be_bytes());
            let m = *r.pick(&[0usize, 16, 32, 64]);
            v.extend((m as u16).to_be_bytes());
            v.extend(r.bytes(m));
            v.extend(r.bytes(2));
            v.extend((*r.pick(&[0u16, 16, 17, 18])).to_be_bytes());
            let o = *r.pick(&[0usize, 0, 6]);
            v.extend((o as u16).to_be_bytes());
            v.extend(r.bytes(o));
        }
        257 => {
            v.push(*r.pick(&[0u8, 128]));
            let tag: Vec<u8> = pickb(r, &[&b"issue"[..], &b"issuewild"[..], &b"iodef"[..], &b"foo9"[..]]);
            v.push(tag.len() as u8);
            v.extend_from_slice(&tag);
            let val: Vec<u8> = pickb(r, &[&b"ca.example.net"[..], &b"ca.example.net; account=1"[..], &b";"[..], &b"mailto:sec@example.com"[..], &b"https://iodef.example.com/"[..]]);
            v.extend_from_slice(&val);
        }
        64 | 65 => {
            v.extend((r.below(3) as u16).to_be_bytes());
            v.extend(wire_name(&gen_name(r)));
            if r.chance(2, 3) {
                // alpn
                v.extend([0, 1]);
                v.extend(6u16.to_be_bytes());
                v.extend([2, b'h', b'2', 2, b'h', b'3']);
            }
            if r.chance(1, 2) {
                v.extend([0, 3, 0, 2]);
                v.extend(r.bytes(2));
            }
            if r.chance(1, 2) {
                v.extend([0, 4, 0, 8]);
                v.extend(r.bytes(8));
            }
            if r.chance(1, 3) {
                v.extend([0x12, 0x34]);
                let n = r.below(6) as usize;
                v.extend((n as u16).to_be_bytes());
                v.extend(r.bytes(n));
            }
        }
        35 => {
            v.extend(r.bytes(4));
            let f: Vec<u8> = pickb(r, &[&b"U"[..], &b"S"[..], &b""[..], &b"A9"[..]]);
            v.push(f.len() as u8);
            v.extend_from_slice(&f);
            let s: Vec<u8> = pickb(r, &[&b"E2U+sip"[..], &b"SIP+D2U"[..], &b""[..]]);
            v.push(s.len() as u8);
            v.extend_from_slice(&s);
            let e: Vec<u8> = pickb(r, &[&b"!^.*$!sip:info@example.com!"[..], &b""[..]]);
            v.push(e.len() as u8);
            v.extend_from_slice(&e);
            v.extend(wire_name(&gen_name(r)));
        }
        37 => {
            v.extend((*r.pick(&[1u16, 2, 3, 253, 254, 9999])).to_be_bytes());
            v.extend(r.bytes(2));
            v.push(*r.pick(&[8u8, 13, 0]));
            let n = r.range(1, 60) as usize;
            v.extend(r.bytes(n));
        }
        62 => {
            v.extend(r.bytes(4));
            v.extend((r.below(4) as u16).to_be_bytes());
            v.extend(bitmaps(r));
        }
        52 | 53 => {
            v.push(r.below(4) as u8);
            v.push(r.below(2) as u8);
            v.push(r.below(3) as u8);
            let n = r.range(1, 64) as usize;
            v.extend(r.bytes(n));
        }
        44 => {
            v.push(r.range(1, 4) as u8);
            v.push(r.range(1, 2) as u8);
            let n = *r.pick(&[20usize, 32]);
            v.extend(r.bytes(n));
        }
        61 => {
            let n = r.range(1, 80) as usize;
            v.extend(r.bytes(n));
        }
        _ => {
            let n = r.below(20) as usize;
            v.extend(r.bytes(n));
        }
    }
    v
}

pub(crate) fn gen_opt(r: &mut Rng) -> OPT {
    let mut opts = vec![];
    for _ in 0..r.below(4) {
        let (code, data): (u16, Vec<u8>) = match r.below(7) {
            0 => (5, pickb(r, &[&[8u8, 13, 15][..], &[5, 7, 8, 10, 13, 14, 15, 99], &[]])),
            1 => {
                let sp = *r.pick(&[0u8, 8, 20, 24, 32]);
                let n = (sp as usize + 7) / 8;
                let mut d = vec![0, 1, sp, r.below(33) as u8];
                d.extend(r.bytes(n));
                (8, d)
            }
            2 => {
                let sp = *r.pick(&[0u8, 48, 56, 64, 128]);
                let n = (sp as usize + 7) / 8;
                let mut d = vec![0, 2, sp, 0];
                d.extend(r.bytes(n));
                (8, d)
            }
            3 => {
                let n = r.below(12) as usize;
                (3, r.bytes(n))
            }
            4 => (10, r.bytes(8)),
            5 => {
                let n = r.below(40) as usize;
                (12, vec![0; n])
            }
            _ => {
                let n = r.below(10) as usize;
                (r.range(14, 70) as u16, r.bytes(n))
            }
        };
        if let Ok(o) = EdnsOption::try_from((EdnsCode::from(code), &data[..])) {
            opts.push((EdnsCode::from(code), o));
        }
    }
    OPT::new(opts)
}

pub(crate) const TIER1: &[u16] = &[1, 28, 2, 5, 12, 65305, 15, 6, 16, 33, 13, 10, 99, 65280];
pub(crate) const SEEDED: &[u16] = &[43, 59, 48, 60, 25, 46, 24, 47, 50, 51, 257, 64, 65, 35, 37, 62, 52, 53, 44, 61];

pub(crate) fn gen_rdata(r: &mut Rng, ty: u16, rec: &mut Recorder) -> Option<RData> {
    Some(match ty {
        1 => RData::A(A(std::net::Ipv4Addr::from(r.next() as u32))),
        28 => RData::AAAA(AAAA(std::net::Ipv6Addr::from(((r.next() as u128) << 64) | r.next() as u128))),
        2 => RData::NS(NS(gen_name(r))),
        5 => RData::CNAME(CNAME(gen_name(r))),
        12 => RData::PTR(PTR(gen_name(r))),
        65305 => RData::ANAME(ANAME(gen_name(r))),
        15 => RData::MX(MX::new(r.next() as u16, gen_name(r))),
        6 => RData::SOA(SOA::new(
            gen_name(r),
            gen_name(r),
            r.next() as u32,
            r.next() as i32,
            r.next() as i32,
            r.next() as i32,
            r.next() as u32,
        )),
        16 => {
            let k = r.below(4);
            let strs: Vec<Vec<u8>> = (0..k)
                .map(|_| {
                    let n = *r.pick(&[0usize, 1, 5, 40, 255]);
                    r.bytes(n)
                })
                .collect();
            RData::TXT(TXT::from_bytes(strs.iter().map(|s| &s[..]).collect()))
        }
        33 => RData::SRV(SRV::new(r.next() as u16, r.next() as u16, r.next() as u16, gen_name(r))),
        13 => {
            let (a, bb) = (r.below(20) as usize, r.below(20) as usize);
            RData::HINFO(HINFO::from_bytes(r.bytes(a).into_boxed_slice(), r.bytes(bb).into_boxed_slice()))
        }
        10 => {
            let n = r.range(1, 40) as usize;
            RData::NULL(NULL::with(r.bytes(n)))
        }
        t if SEEDED.contains(&t) => {
            // typed value obtained by decoding a hand-assembled well-formed seed
            let seed = seed_rdata(r, t);
            match catch(|| RData::read(BinDecoder::new(&seed), RecordType::from(t))) {
                Ok(Ok(d)) => {
                    rec.stat(&format!("seed.ok.{t}"));
                    d
                }
                _ => {
                    rec.stat(&format!("seed.rejected.{t}"));
                    return None;
                }
            }
        }
        t => {
            let n = r.range(1, 30) as usize;
            RData::Unknown { code: RecordType::from(t), rdata: NULL::with(r.bytes(n)) }
        }
    })
}

pub(crate) fn gen_record(r: &mut Rng, rec: &mut Recorder, tier1_only: bool) -> Option<Record> {
    let ty = if tier1_only || r.chance(3, 5) { *r.pick(TIER1) } else { *r.pick(SEEDED) };
    let d = gen_rdata(r, ty, rec)?;
    let mut x = Record::from_rdata(gen_name(r), r.next() as u32, d);
    if r.chance(1, 10) {
        x.dns_class = *r.pick(&[DNSClass::CH, DNSClass::ANY, DNSClass::NONE, DNSClass::HS]);
    }
    Some(x)
}

pub(crate) fn gen_message(r: &mut Rng, rec: &mut Recorder, tier1_only: bool, request: bool) -> Vec<u8> {
    let op = match r.below(10) {
        0 | 1 => OpCode::Update,
        2 => OpCode::Notify,
        3 => OpCode::Status,
        _ => OpCode::Query,
    };
    let mt = if request || r.chance(1, 3) { MessageType::Query } else { MessageType::Response };
    let mut m = Message::new(r.next() as u16, mt, op);
    m.metadata.authoritative = r.chance(1, 2);
    m.metadata.truncation = r.chance(1, 8);
    m.metadata.recursion_desired = r.chance(1, 2);
    m.metadata.recursion_available = r.chance(1, 2);
    m.metadata.authentic_data = r.chance(1, 4);
    m.metadata.checking_disabled = r.chance(1, 4);
    m.metadata.response_code = hickory_proto::op::ResponseCode::from(0, r.below(11) as u8);
    let nq = if request { 1 } else { *r.pick(&[1u64, 1, 1, 1, 0, 2, 3]) };
    for _ in 0..nq {
        let mut q = Query::new(gen_name(r), RecordType::from(*r.pick(ALL_TYPES)));
        q.set_query_class(*r.pick(&[DNSClass::IN, DNSClass::IN, DNSClass::CH, DNSClass::ANY, DNSClass::NONE]));
        m.add_query(q);
    }
    let (na, nn, nx) = if request && !r.chance(1, 3) { (0, 0, r.below(2)) } else { (r.below(5), r.below(3), r.below(4)) };
    for _ in 0..na {
        if let Some(x) = gen_record(r, rec, tier1_only) {
            m.add_answer(x);
        }
    }
    for _ in 0..nn {
        if let Some(x) = gen_record(r, rec, tier1_only) {
            m.add_authority(x);
        }
    }
    for _ in 0..nx {
        if let Some(x) = gen_record(r, rec, tier1_only) {
            m.add_additional(x);
        }
    }
    if op == OpCode::Update && r.chance(1, 2) {
        // RFC 2136 prerequisite / delete forms: RDLENGTH 0
        let mut u = Record::update0(gen_name(r), 0, RecordType::from(*r.pick(&[1u16, 255, 16, 6])));
        u.dns_class = *r.pick(&[DNSClass::ANY, DNSClass::NONE, DNSClass::IN]);
        m.add_authority(u);
    }
    if r.chance(1, 2) {
        let mut e = Edns::new();
        e.set_max_payload(*r.pick(&[512u16, 1232, 4096, 100, 65535]));
        e.set_version(r.below(2) as u8);
        e.set_dnssec_ok(r.chance(1, 2));
        e.set_rcode_high(*r.pick(&[0u8, 0, 0, 1, 255]));
        *e.options_mut() = gen_opt(r);
        m.set_edns(e);
    }
    if !tier1_only && r.chance(1, 6) {
        let seed = seed_rdata(r, 250);
        if let Ok(Ok(RData::TSIG(t))) = catch(|| RData::read(BinDecoder::new(&seed), RecordType::TSIG)) {
            let mut sig = Record::from_rdata(gen_name(r), 0, t);
            sig.dns_class = DNSClass::ANY;
            m.set_signature(Box::new(sig));
            rec.stat("seed.ok.250");
        } else {
            rec.stat("seed.rejected.250");
        }
    }
    match catch(|| m.to_vec()) {
        Ok(Ok(v)) => v,
        _ => {
            rec.stat("gen.emit-failed");
            let mut v = r.bytes(12);
            v.extend(wire_name(&gen_name(r)));
            v.extend([0, 1, 0, 1]);
            v
        }
    }
}

pub(crate) fn mutate(r: &mut Rng, buf: &mut Vec<u8>) -> &'static str {
    if buf.is_empty() {
        buf.push(r.byte());
        return "grow";
    }
    let (_, recs) = walk(buf);
    match r.below(12) {
        0 | 1 => {
            let i = r.below(buf.len() as u64) as usize;
            buf[i] ^= 1 << r.below(8);
            "bitflip"
        }
        2 => {
            let n = r.below(buf.len() as u64) as usize;
            buf.truncate(n);
            "truncate"
        }
        3 => {
            if buf.len() >= 12 {
                let f = 4 + 2 * r.below(4) as usize;
                let v: u16 = *r.pick(&[0u16, 1, 2, 3, 255, 0xFFFF]);
                buf[f..f + 2].copy_from_slice(&v.to_be_bytes());
            }
            "count-edit"
        }
        4 | 5 => {
            // RDLENGTH edit
            if let Some((_, _, s, e)) = recs.get(r.below(recs.len().max(1) as u64) as usize).copied() {
                if s >= 2 && s <= buf.len() {
                    let len = (e - s) as i64;
                    let nl = (len + *r.pick(&[-1i64, 1, -2, 2, 100, -len, 0xFFFF - len])).clamp(0, 0xFFFF) as u16;
                    buf[s - 2..s].copy_from_slice(&nl.to_be_bytes());
                }
            }
            "rdlength-edit"
        }
        6 | 7 => {
            // pointer edit
            let ptrs: Vec<usize> = (12.min(buf.len())..buf.len().saturating_sub(1)).filter(|i| buf[*i] >= 0xC0).collect();
            if !ptrs.is_empty() {
                let i = *r.pick(&ptrs);
                let tgt: u16 = match r.below(5) {
                    0 => i as u16,
                    1 => (i as u16).saturating_sub(r.range(1, 12) as u16),
                    2 => i as u16 + r.range(1, 20) as u16,
                    3 => r.below(12) as u16,
                    _ => r.below(buf.len() as u64 + 4) as u16,
                };
                let v = 0xC000 | (tgt & 0x3FFF);
                buf[i..i + 2].copy_from_slice(&v.to_be_bytes());
                "pointer-edit"
            } else {
                let i = r.below(buf.len() as u64) as usize;
                buf[i] = 0xC0;
                "pointer-insert"
            }
        }
        8 => {
            let i = r.below(buf.len() as u64) as usize;
            buf[i] = *r.pick(&[0u8, 0x3F, 0x40, 0x80, 0xC0, 0xFF, 1, 63, 64]);
            "byte-set"
        }
        9 => {
            let i = r.below(buf.len() as u64 + 1) as usize;
            let n = r.range(1, 4) as usize;
            let ins = r.bytes(n);
            buf.splice(i..i, ins);
            "insert"
        }
        10 => {
            let i = r.below(buf.len() as u64) as usize;
            let n = (r.range(1, 4) as usize).min(buf.len() - i);
            buf.drain(i..i + n);
            "delete"
        }
        _ => {
            // type edit: make some record another type
            if let Some((p, _, s, _)) = recs.get(r.below(recs.len().max(1) as u64) as usize).copied() {
                let _ = p;
                if s >= 10 && s <= buf.len() {
                    let t = *r.pick(ALL_TYPES);
                    buf[s - 10..s - 8].copy_from_slice(&t.to_be_bytes());
                }
            }
            "type-edit"
        }
    }
}

/// adversarial messages that are too large / slow for the list-based model: implementation only
fn big_cases(thorough: bool) -> Vec<String> {
    let mut v = vec![];
    // longest possible pointer chain in the first 16 KiB, then as many names as fit, each of which
    // walks the whole chain: the worst case of "time proportional to the input".
    let chain = 8180usize; // last pointer sits at 23 + 2*8179 = 16381, the highest 14-bit-addressable even offset
    let mut buf = vec![0u8; 12];
    buf[0] = 0x12;
    // question count filled in below
    // offset 12: root label; 13: pad; then pointers p_k at 14+2k -> previous
    buf.push(0);
    buf.push(0);
    let mut prev = 12u16;
    for _ in 0..chain {
        let at = buf.len() as u16;
        buf.extend((0xC000 | prev).to_be_bytes());
        prev = at;
    }
    // these bytes sit in the question section as garbage unless addressed; put them inside an
    // unknown-type RDATA of the first answer instead: header(12) name(1)=root at 12 ...
    // simpler: make the whole prefix one question whose name is the root at 12, then the chain
    // bytes are the RDATA of an answer of unknown type.
    let mut m = vec![0x12, 0x34, 0x80, 0, 0, 0, 0, 1, 0, 0, 0, 0];
    m.push(0); // owner: root (offset 12)
    m.extend([0xFF, 0x00, 0, 1, 0, 0, 0, 0]); // type 65280, class IN, ttl 0
    let rdlen = 2 * chain;
    m.extend((rdlen as u16).to_be_bytes()); // offset 21..23
    let mut prev = 12u16;
    for _ in 0..chain {
        let at = m.len() as u16;
        m.extend((0xC000 | prev).to_be_bytes());
        prev = at;
    }
    // now NS records: owner = pointer to the chain's end, rdata = pointer to the chain's end
    let mut n = 0u16;
    while m.len() + 14 <= 65535 && (thorough || n < 600) {
        m.extend((0xC000 | prev).to_be_bytes());
        m.extend([0, 2, 0, 1, 0, 0, 0, 0, 0, 2]);
        m.extend((0xC000 | prev).to_be_bytes());
        n += 1;
    }
    let total = 1 + n;
    m[6..8].copy_from_slice(&total.to_be_bytes());
    v.push(format!("msg! {}", hex(&m)));
    // the same with questions (QDCOUNT large): name + type + class = 6 bytes each
    let mut q = m[..23 + rdlen].to_vec();
    q[6..8].copy_from_slice(&1u16.to_be_bytes());
    // questions must precede the answer, so instead append additionals of type A with pointer owners
    let mut k = 0u16;
    while q.len() + 16 <= 65535 && (thorough || k < 600) {
        q.extend((0xC000 | prev).to_be_bytes());
        q.extend([0, 1, 0, 1, 0, 0, 0, 0, 0, 4, 1, 2, 3, 4]);
        k += 1;
    }
    q[10..12].copy_from_slice(&k.to_be_bytes());
    v.push(format!("msg! {}", hex(&q)));
    // 64 KiB of maximal counts and zeros / 0xFF / 0xC0
    for fill in [0u8, 0xFF, 0xC0, 0x3F] {
        let mut b = vec![0x00, 0x01, 0x00, 0x00, 0xFF, 0xFF, 0xFF, 0xFF, 0xFF, 0xFF, 0xFF, 0xFF];
        b.resize(65535, fill);
        v.push(format!("msg! {}", hex(&b)));
        v.push(format!("req! {}", hex(&b)));
    }
    // 65535 root-name questions
    let mut b = vec![0, 1, 0, 0, 0xFF, 0xFF, 0, 0, 0, 0, 0, 0];
    while b.len() + 5 <= 65535 {
        b.extend([0, 0, 1, 0, 1]);
    }
    v.push(format!("msg! {}", hex(&b)));
    // a TXT / OPT record filling the message
    let mut b = vec![0, 1, 0x80, 0, 0, 0, 0, 1, 0, 0, 0, 1, 0, 0, 16, 0, 1, 0, 0, 0, 0];
    let n = 30000usize;
    b.extend((n as u16).to_be_bytes());
    b.extend(std::iter::repeat(0u8).take(n)); // 30000 empty strings
    b.extend([0, 0, 41, 0x10, 0, 0, 0, 0, 0]);
    let n2 = 65535 - b.len() - 2;
    let n2 = n2 - n2 % 4;
    b.extend((n2 as u16).to_be_bytes());
    for _ in 0..n2 / 4 {
        b.extend([0, 12, 0, 0]); // empty padding options
    }
    v.push(format!("msg! {}", hex(&b)));
    v
}


// ---------------------------------------------------------------- family: pointer graphs

fn ptr2(target: usize) -> [u8; 2] {
    (0xC000u16 | (target as u16 & 0x3FFF)).to_be_bytes()
}

/// A region of labels / roots / 2-octet pointers that target EACH OTHER in any direction
/// (self-loops, 2- and 3-cycles, chains into cycles, forward pointers, pointers into the middle of
/// an item).  Returns the bytes (to be placed at absolute offset `base`) and the item offsets.
fn pointer_region(r: &mut Rng, base: usize) -> (Vec<u8>, Vec<usize>) {
    #[derive(Clone, Copy)]
    enum Item {
        Ptr,
        Label(usize),
        Root,
    }
    let n = r.range(1, 6) as usize;
    let items: Vec<Item> = (0..n)
        .map(|_| match r.below(8) {
            0 => Item::Root,
            1 | 2 => Item::Label(r.range(1, 3) as usize),
            _ => Item::Ptr,
        })
        .collect();
    let mut offs = vec![];
    let mut at = base;
    for it in &items {
        offs.push(at);
        at += match it {
            Item::Ptr => 2,
            Item::Label(k) => 1 + k,
            Item::Root => 1,
        };
    }
    let mut v = vec![];
    for (i, it) in items.iter().enumerate() {
        match it {
            Item::Ptr => {
                let tgt = match r.below(10) {
                    0 | 1 => offs[i],                                  // self loop
                    2 => offs[(i + 1) % n],                            // next (forward or wrap: cycle)
                    3 => offs[(i + n - 1) % n],                        // previous
                    4 => offs[i] + 1,                                  // its own second octet
                    5 => r.below(base as u64 + 1) as usize,            // anything before the region (header)
                    _ => offs[r.below(n as u64) as usize],             // any item
                };
                v.extend(ptr2(tgt));
            }
            Item::Label(k) => {
                v.push(*k as u8);
                v.extend(std::iter::repeat(b'a' + (i as u8 % 26)).take(*k));
            }
            Item::Root => v.push(0),
        }
    }
    (v, offs)
}

/// a name that starts AFTER the region and enters it through a pointer (optionally after labels)
fn entry_name(r: &mut Rng, targets: &[usize]) -> Vec<u8> {
    let mut v = vec![];
    for _ in 0..r.below(3) {
        let k = r.range(1, 4) as usize;
        v.push(k as u8);
        v.extend(std::iter::repeat(b'x').take(k));
    }
    v.extend(ptr2(*r.pick(targets)));
    v
}

/// header octets chosen so that they read as pointers / labels / roots when a name points into them
fn tricky_header(r: &mut Rng, qd: u16, an: u16, ns: u16, ar: u16) -> Vec<u8> {
    let id: [u8; 2] = *r.pick(&[[0xC0, 0x00], [0xC0, 0x02], [0xC0, 0x04], [0xC0, 0x0C], [0xC0, 0x01], [0x01, b'a'], [0x00, 0xC0], [0xC0, 0x0A], [0x3F, 0x3F]]);
    let fl: [u8; 2] = *r.pick(&[[0x01, 0x00], [0xC0, 0x00], [0xC0, 0x02], [0x81, 0x80], [0x00, 0x00], [0x00, 0xC0], [0xC0, 0x0C], [0x28, 0x00]]);
    let mut h = vec![id[0], id[1], fl[0], fl[1]];
    for c in [qd, an, ns, ar] {
        h.extend(c.to_be_bytes());
    }
    h
}

fn pointer_graph_cases(r: &mut Rng, n: usize) -> Vec<String> {
    let mut v = vec![];
    for i in 0..n {
        match i % 5 {
            0 => {
                // name: region at 0, the decoded name after it; also start inside the region at offsets >= 2
                let (reg, offs) = pointer_region(r, 0);
                let mut buf = reg;
                let start = buf.len();
                buf.extend(entry_name(r, &offs));
                v.push(format!("name {} {start}", hex(&buf)));
                if let Some(o) = offs.iter().find(|o| **o >= 2) {
                    v.push(format!("name {} {o}", hex(&buf)));
                }
            }
            1 => {
                // record: owner enters the region, NS rdata enters it too
                let (reg, offs) = pointer_region(r, 0);
                let mut buf = reg;
                let start = buf.len();
                buf.extend(entry_name(r, &offs));
                let rd = entry_name(r, &offs);
                buf.extend([0, 2, 0, 1, 0, 0, 0, 60]);
                buf.extend((rd.len() as u16).to_be_bytes());
                buf.extend(rd);
                v.push(format!("record {} {start}", hex(&buf)));
            }
            2 | 3 => {
                // msg / req: QNAME points into the header; answers point at the question / header / each other
                let an = if i % 5 == 2 { r.below(3) as u16 } else { 0 };
                let ar = r.below(2) as u16;
                let mut buf = tricky_header(r, 1, an, 0, ar);
                let hdr: Vec<usize> = (0..=12).collect();
                buf.extend(entry_name(r, &hdr));
                buf.extend([0, 1, 0, 1]);
                for _ in 0..an + ar {
                    let mut tg: Vec<usize> = (0..buf.len() + 2).collect();
                    tg.push(buf.len());
                    buf.extend(entry_name(r, &tg));
                    let rd = entry_name(r, &tg);
                    buf.extend([0, 2, 0, 1, 0, 0, 0, 60]);
                    buf.extend((rd.len() as u16).to_be_bytes());
                    buf.extend(rd);
                }
                v.push(format!("{} {}", if i % 5 == 2 { "msg" } else { "req" }, hex(&buf)));
            }
            _ => {
                // msg: a pointer region inside the RDATA of an unknown-type answer, later owners enter it
                let mut buf = tricky_header(r, 1, 3, 0, 0);
                buf.extend([1, b'q', 0, 0, 1, 0, 1]);
                buf.extend([0xC0, 12, 0xFF, 0x01, 0, 1, 0, 0, 0, 0]);
                let base = buf.len() + 2;
                let (reg, offs) = pointer_region(r, base);
                buf.extend((reg.len() as u16).to_be_bytes());
                buf.extend(reg);
                for _ in 0..2 {
                    buf.extend(entry_name(r, &offs));
                    let rd = entry_name(r, &offs);
                    buf.extend([0, 5, 0, 1, 0, 0, 0, 60]);
                    buf.extend((rd.len() as u16).to_be_bytes());
                    buf.extend(rd);
                }
                v.push(format!("{} {}", if r.chance(1, 4) { "req" } else { "msg" }, hex(&buf)));
            }
        }
    }
    v
}

// ---------------------------------------------------------------- family: extreme but well-formed RDATA
// Written from the wire formats (RFC 1035, 2782, 2845, 3403, 4034, 4255, 4398, 5155, 6698, 6891, 7477,
// 7929, 8659, 9460), NOT from the repo's constructors: every length-prefixed field takes boundary values
// with the announced octets present, names go up to 255 octets, RDLENGTH fits exactly.

const LEN8: &[usize] = &[0, 1, 2, 7, 8, 15, 16, 20, 31, 32, 33, 39, 40, 41, 63, 64, 65, 127, 128, 129, 200, 254, 255];

fn len8(r: &mut Rng) -> usize {
    *r.pick(LEN8)
}

fn len16(r: &mut Rng) -> usize {
    match r.below(20) {
        0 => *r.pick(&[16383usize, 16384, 32767, 32768, 60000]),
        1 | 2 => *r.pick(&[511usize, 512, 1024, 4095, 4096]),
        _ => *r.pick(&[0usize, 1, 2, 3, 19, 20, 32, 48, 64, 255, 256, 257]),
    }
}

fn xcstr(r: &mut Rng) -> Vec<u8> {
    let n = len8(r);
    let mut v = vec![n as u8];
    v.extend(r.bytes(n));
    v
}

fn alnum(r: &mut Rng, n: usize) -> Vec<u8> {
    (0..n).map(|_| *r.pick(b"abcxyzABCXYZ0189")).collect()
}

fn labels_wire(lens: &[usize], fill: u8) -> Vec<u8> {
    let mut v = vec![];
    for (i, l) in lens.iter().enumerate() {
        v.push(*l as u8);
        v.extend(std::iter::repeat(fill.wrapping_add(i as u8 % 20)).take(*l));
    }
    v.push(0);
    v
}

/// uncompressed names at the limits: root, one octet, a 63-octet label, exactly 255 / 254 octets,
/// 127 one-octet labels
fn xname(r: &mut Rng) -> Vec<u8> {
    match r.below(8) {
        0 => vec![0],
        1 => labels_wire(&[1], b'a'),
        2 => labels_wire(&[63], b'a'),
        3 => labels_wire(&[63, 63, 63, 61], b'a'),
        4 => labels_wire(&[63, 63, 63, 60], b'a'),
        5 => labels_wire(&[1; 127], b'a'),
        6 => labels_wire(&[62, 1, 63, 2], b'A'),
        _ => wire_name(&gen_name(r)),
    }
}

/// total wire length `total` (1..=255) out of maximal labels
fn name_of_len(total: usize) -> Vec<u8> {
    let mut left = total.saturating_sub(1);
    let mut lens = vec![];
    while left > 0 {
        let l = (left - 1).min(63);
        if l == 0 {
            // one octet left cannot hold a label: shorten the previous label by one and add a 1-octet label
            if let Some(last) = lens.last_mut() {
                if *last > 1 {
                    *last -= 1;
                    lens.push(1);
                }
            }
            break;
        }
        lens.push(l);
        left -= l + 1;
    }
    labels_wire(&lens, b'a')
}

fn window(w: u8, len: usize, r: &mut Rng) -> Vec<u8> {
    let mut v = vec![w, len as u8];
    let mut bytes = r.bytes(len);
    if w == 0 && len > 0 {
        bytes[0] &= 0x7F; // type 0 never appears
    }
    if len > 0 && bytes[len - 1] == 0 {
        bytes[len - 1] = 1;
    }
    v.extend(bytes);
    v
}

fn xbitmaps(r: &mut Rng) -> Vec<u8> {
    match r.below(8) {
        0 => vec![],
        1 => window(r.byte(), 32, r),
        2 => window(r.byte(), 1, r),
        3 => {
            // every window, full length
            let mut v = vec![];
            for w in 0..=255u8 {
                v.extend(window(w, 32, r));
            }
            v
        }
        4 => window(255, r.range(1, 32) as usize, r),
        _ => {
            let mut v = vec![];
            let mut w = r.below(4) as u16;
            while w < 256 && v.len() < 600 {
                v.extend(window(w as u8, r.range(1, 32) as usize, r));
                w += r.range(1, 90) as u16;
            }
            v
        }
    }
}

fn extreme_rdata(r: &mut Rng, t: u16) -> Vec<u8> {
    let mut v = vec![];
    match t {
        1 => v.extend(r.bytes(4)),
        28 => v.extend(r.bytes(16)),
        2 | 5 | 12 | 65305 => v.extend(xname(r)),
        15 => {
            v.extend(r.bytes(2));
            v.extend(xname(r));
        }
        6 => {
            v.extend(xname(r));
            v.extend(xname(r));
            v.extend(*r.pick(&[[0u8; 20], [0xFF; 20], [0x80; 20], [0x7F; 20]]));
        }
        33 => {
            v.extend(r.bytes(6));
            v.extend(xname(r));
        }
        16 => {
            let k = *r.pick(&[0usize, 1, 1, 2, 3, 16, 200]);
            for _ in 0..k {
                let s = if k >= 200 { let mut s = vec![255u8]; s.extend(vec![b't'; 255]); s } else { xcstr(r) };
                v.extend(s);
            }
        }
        13 => {
            v.extend(xcstr(r));
            v.extend(xcstr(r));
        }
        41 => {
            for _ in 0..r.below(4) {
                match r.below(6) {
                    0 => {
                        // DAU: up to 255 algorithm octets
                        let n = len8(r);
                        v.extend([0, 5]);
                        v.extend((n as u16).to_be_bytes());
                        v.extend((0..n).map(|i| [5u8, 7, 8, 10, 13, 14, 15, 1, 3, 200][i % 10]));
                    }
                    1 => {
                        // client subnet, every prefix length with exactly the octets it needs
                        let (fam, max) = if r.chance(1, 2) { (1u8, 32u64) } else { (2, 128) };
                        let sp = r.below(max + 1) as usize;
                        let n = (sp + 7) / 8;
                        v.extend([0, 8]);
                        v.extend((4 + n as u16).to_be_bytes());
                        v.extend([0, fam, sp as u8, r.below(max + 1) as u8]);
                        v.extend(r.bytes(n));
                    }
                    2 => {
                        let n = len16(r).min(20000);
                        v.extend([0, 3]);
                        v.extend((n as u16).to_be_bytes());
                        v.extend(r.bytes(n));
                    }
                    _ => {
                        let n = len16(r).min(20000);
                        v.extend((*r.pick(&[10u16, 12, 0, 4, 14, 65001, 65535])).to_be_bytes());
                        v.extend((n as u16).to_be_bytes());
                        v.extend(r.bytes(n));
                    }
                }
            }
        }
        250 => {
            let alg = match r.below(5) {
                0 => labels_wire(&[11], b'h'),
                1 => wire_name(&Name::from_ascii("hmac-sha256.").unwrap()),
                2 => wire_name(&Name::from_ascii("HMAC-MD5.SIG-ALG.REG.INT.").unwrap()),
                3 => labels_wire(&[63, 63, 63, 61], b'a'),
                _ => vec![0],
            };
            v.extend(alg);
            v.extend(*r.pick(&[[0u8; 6], [0xFF; 6], [0, 0, 0x65, 0, 0, 0]]));
            v.extend(r.bytes(2));
            let m = len16(r).min(30000);
            v.extend((m as u16).to_be_bytes());
            v.extend(r.bytes(m));
            v.extend(r.bytes(2));
            v.extend((*r.pick(&[0u16, 16, 17, 18, 22, 65535])).to_be_bytes());
            let o = len16(r).min(30000);
            v.extend((o as u16).to_be_bytes());
            v.extend(r.bytes(o));
        }
        43 | 59 => {
            v.extend(r.bytes(2));
            v.push(*r.pick(&[0u8, 5, 8, 13, 15, 255]));
            v.push(*r.pick(&[0u8, 1, 2, 4, 255]));
            let n = len16(r);
            v.extend(r.bytes(n));
        }
        48 | 60 => {
            v.extend(*r.pick(&[[1u8, 1], [1, 0], [0, 0], [0xFF, 0xFF], [0, 0x80]]));
            v.push(3);
            v.push(*r.pick(&[0u8, 5, 8, 13, 15, 255]));
            let n = len16(r);
            v.extend(r.bytes(n));
        }
        25 => {
            v.extend(*r.pick(&[[0u8, 0], [0xC3, 0x0F], [0x01, 0x00], [0x80, 0x01], [0x42, 0x08]]));
            v.push(*r.pick(&[0u8, 1, 3, 4, 255, 77]));
            v.push(*r.pick(&[0u8, 5, 8, 255]));
            let n = len16(r);
            v.extend(r.bytes(n));
        }
        46 | 24 => {
            v.extend((*r.pick(&[1u16, 0, 255, 65535, 46])).to_be_bytes());
            v.push(r.byte());
            v.push(*r.pick(&[0u8, 1, 127, 255]));
            v.extend(*r.pick(&[[0u8; 12], [0xFF; 12], [0x80; 12]]));
            v.extend(r.bytes(2));
            v.extend(xname(r));
            let n = len16(r);
            v.extend(r.bytes(n));
        }
        47 => {
            v.extend(xname(r));
            v.extend(xbitmaps(r));
        }
        50 => {
            v.push(1);
            v.push(r.below(2) as u8);
            v.extend(*r.pick(&[[0u8, 0], [0xFF, 0xFF], [0, 10]]));
            v.extend(xcstr(r)); // salt: 0..255 octets, present
            v.extend(xcstr(r)); // next hashed owner name: 0..255 octets, present
            v.extend(xbitmaps(r));
        }
        51 => {
            v.push(1);
            v.push(r.below(2) as u8);
            v.extend(r.bytes(2));
            v.extend(xcstr(r));
        }
        257 => {
            v.push(*r.pick(&[0u8, 128, 255, 1]));
            let n = *r.pick(&[1usize, 2, 5, 14, 15]);
            v.push(n as u8);
            v.extend(alnum(r, n));
            let k = len16(r);
            v.extend(r.bytes(k));
        }
        64 | 65 => {
            v.extend((*r.pick(&[0u16, 1, 65535])).to_be_bytes());
            v.extend(xname(r));
            let mut keys: Vec<u16> = vec![0, 1, 2, 3, 4, 5, 6, 7, 100, 65279, 65280, 65534, 65535];
            keys.retain(|_| r.chance(1, 3));
            let present: Vec<u16> = keys.clone();
            for k in keys {
                let val: Vec<u8> = match k {
                    0 => {
                        let ks: Vec<u16> = present.iter().copied().filter(|x| *x != 0).collect();
                        let ks = if ks.is_empty() { vec![1u16] } else { ks };
                        ks.iter().flat_map(|x| x.to_be_bytes()).collect()
                    }
                    1 => {
                        let mut a = vec![];
                        for _ in 0..r.range(1, 3) {
                            let n = len8(r);
                            a.push(n as u8);
                            a.extend(match r.below(4) {
                                0 => "é€😀".as_bytes().iter().copied().cycle().take(n / 9 * 9).chain(std::iter::repeat(b'h').take(n % 9)).collect::<Vec<u8>>(),
                                _ => vec![b'h'; n],
                            });
                        }
                        a
                    }
                    2 => vec![],
                    3 => r.bytes(2),
                    4 => {
                        let n = *r.pick(&[0usize, 1, 2, 63, 64, 255]);
                        r.bytes(4 * n)
                    }
                    6 => {
                        let n = *r.pick(&[0usize, 1, 2, 16, 64]);
                        r.bytes(16 * n)
                    }
                    _ => {
                        let n = len16(r).min(8000);
                        r.bytes(n)
                    }
                };
                v.extend(k.to_be_bytes());
                v.extend((val.len() as u16).to_be_bytes());
                v.extend(val);
            }
        }
        35 => {
            v.extend(r.bytes(4));
            let n = len8(r);
            v.push(n as u8);
            v.extend(alnum(r, n));
            v.extend(xcstr(r));
            v.extend(xcstr(r));
            v.extend(xname(r));
        }
        37 => {
            v.extend((*r.pick(&[0u16, 1, 8, 9, 252, 253, 254, 255, 256, 65279, 65280, 65534, 65535])).to_be_bytes());
            v.extend(r.bytes(2));
            v.push(*r.pick(&[0u8, 8, 17, 18, 23, 122, 123, 252, 253, 254, 255]));
            let n = len16(r).max(1);
            v.extend(r.bytes(n));
        }
        62 => {
            v.extend(r.bytes(4));
            v.extend([*r.pick(&[0u8, 1, 0xFF]), r.below(4) as u8]);
            v.extend(xbitmaps(r));
        }
        52 | 53 => {
            v.extend([*r.pick(&[0u8, 3, 4, 254, 255]), *r.pick(&[0u8, 1, 2, 254, 255]), *r.pick(&[0u8, 1, 2, 3, 254, 255])]);
            let n = len16(r);
            v.extend(r.bytes(n));
        }
        44 => {
            v.extend([*r.pick(&[0u8, 1, 4, 6, 7, 255]), *r.pick(&[0u8, 1, 2, 3, 255])]);
            let n = len16(r);
            v.extend(r.bytes(n));
        }
        _ => {
            // NULL, OPENPGPKEY, unknown types: any octets
            let n = len16(r);
            v.extend(r.bytes(n));
        }
    }
    v
}

const WIRE_TYPES: &[u16] = &[
    1, 28, 2, 5, 12, 65305, 15, 6, 33, 16, 13, 10, 41, 250, 43, 59, 48, 60, 25, 46, 24, 47, 50, 51, 257, 64, 65, 35, 37, 62,
    52, 53, 44, 61, 99, 65280,
];

/// the RDATA as `rdata`, as `record` (RDLENGTH fitting exactly) and inside a message
fn embed(t: u16, rd: &[u8], fam: &str, out: &mut Vec<String>, with_msg: bool) {
    if rd.len() > 65000 {
        return;
    }
    // the list-based Lean model is quadratic in the buffer size: large inputs run implementation-only
    let x = if rd.len() > 3000 { "!" } else { "" };
    out.push(format!("rdata{x} {t} {} 0 #{fam}", hex(rd)));
    let (owner, class): (&[u8], u16) = match t {
        41 => (&[0], 4096),
        250 | 24 => (&[3, b'k', b'e', b'y', 0], 255),
        _ => (&[1, b'o', 0], 1),
    };
    if rd.is_empty() {
        return; // RDLENGTH 0 is the Update0 form, covered elsewhere
    }
    let mut rec = owner.to_vec();
    rec.extend(t.to_be_bytes());
    rec.extend(class.to_be_bytes());
    rec.extend([0, 0, 0, 60]);
    rec.extend((rd.len() as u16).to_be_bytes());
    rec.extend(rd);
    out.push(format!("record{x} {} 0 #{fam}", hex(&rec)));
    if with_msg && rec.len() + 20 <= 65535 {
        let additional = matches!(t, 41 | 250 | 24);
        let mut m = vec![0x12, 0x34, 0x84, 0x00, 0, 1, 0, if additional { 0 } else { 1 }, 0, 0, 0, if additional { 1 } else { 0 }];
        m.extend([1, b'q', 0]);
        m.extend(t.to_be_bytes());
        m.extend([0, 1]);
        m.extend(rec);
        out.push(format!("msg{x} {} #{fam}", hex(&m)));
    }
}

fn extreme_cases(r: &mut Rng, per_type: usize) -> Vec<String> {
    let mut out = vec![];
    for &t in WIRE_TYPES {
        for k in 0..per_type {
            let rd = extreme_rdata(r, t);
            embed(t, &rd, "extreme", &mut out, k % 2 == 0);
        }
    }
    out
}

/// thorough: every value of every one-octet length field (with the announced octets present),
/// every window number x every window length of a type bitmap, every name length 1..=255,
/// and 16-bit length fields from 0 to 300
fn sweep_cases(r: &mut Rng) -> Vec<String> {
    let mut out = vec![];
    let f = "sweep";
    let bm = [0u8, 1, 0x40];
    for n in 0..=255usize {
        // NSEC3 salt / hash, NSEC3PARAM salt
        for (s, h) in [(4usize, n), (n, 20), (n, n)] {
            let mut v = vec![1, 0, 0, 5, s as u8];
            v.extend(r.bytes(s));
            v.push(h as u8);
            v.extend(r.bytes(h));
            v.extend(bm);
            embed(50, &v, f, &mut out, n % 16 == 0);
        }
        let mut v = vec![1, 0, 0, 5, n as u8];
        v.extend(r.bytes(n));
        embed(51, &v, f, &mut out, false);
        // TXT / HINFO / NAPTR / CAA character strings
        let mut s = vec![n as u8];
        s.extend(vec![b's'; n]);
        embed(16, &s, f, &mut out, n % 16 == 0);
        let mut v = s.clone();
        v.extend(&s);
        embed(16, &v, f, &mut out, false);
        embed(13, &v, f, &mut out, n % 16 == 0);
        let mut v = vec![3, b'c', b'p', b'u'];
        v.extend(&s);
        embed(13, &v, f, &mut out, false);
        for which in 0..3 {
            let mut v = vec![0, 1, 0, 2];
            for i in 0..3 {
                if i == which {
                    v.push(n as u8);
                    v.extend(alnum(r, n));
                } else {
                    v.push(1);
                    v.push(b'u');
                }
            }
            v.extend([1, b'r', 0]);
            embed(35, &v, f, &mut out, false);
        }
        let mut v = vec![0, n as u8];
        v.extend(alnum(r, n));
        v.extend(b"value");
        embed(257, &v, f, &mut out, false);
        // DAU option of n octets, SVCB alpn id of n octets, ipv4hint of n addresses
        let mut v = vec![0, 5];
        v.extend((n as u16).to_be_bytes());
        v.extend(vec![8u8; n]);
        embed(41, &v, f, &mut out, n % 16 == 0);
        let mut v = vec![0, 1, 0, 0, 1];
        v.extend((1 + n as u16).to_be_bytes());
        v.push(n as u8);
        v.extend(vec![b'h'; n]);
        embed(64, &v, f, &mut out, n % 16 == 0);
        let mut v = vec![0, 1, 0, 0, 4];
        v.extend((4 * n as u16).to_be_bytes());
        v.extend(r.bytes(4 * n));
        embed(65, &v, f, &mut out, false);
        // names of every length, as NS and inside MX / SOA / SRV / RRSIG / NSEC
        if n >= 1 {
            let nm = name_of_len(n);
            embed(2, &nm, f, &mut out, n % 16 == 0 || n >= 250);
            let mut v = vec![0, 10];
            v.extend(&nm);
            embed(15, &v, f, &mut out, false);
            let mut v = nm.clone();
            v.extend(&nm);
            v.extend([0u8; 20]);
            embed(6, &v, f, &mut out, n >= 250);
            let mut v = vec![0, 1, 8, 2, 0, 0, 14, 16, 0, 0, 0, 2, 0, 0, 0, 1, 0xBE, 0xEF];
            v.extend(&nm);
            v.extend(b"sig");
            embed(46, &v, f, &mut out, false);
            let mut v = nm.clone();
            v.extend(bm);
            embed(47, &v, f, &mut out, false);
        }
    }
    // client-subnet prefixes
    for (fam, max) in [(1u8, 32usize), (2, 128)] {
        for sp in 0..=max {
            let n = (sp + 7) / 8;
            let mut v = vec![0, 8];
            v.extend((4 + n as u16).to_be_bytes());
            v.extend([0, fam, sp as u8, 0]);
            v.extend(r.bytes(n));
            embed(41, &v, f, &mut out, false);
        }
    }
    // type bitmaps: every window number x every length 1..=32 (NSEC), a subset for NSEC3 / CSYNC
    for w in 0..=255u8 {
        for len in 1..=32usize {
            let mut v = vec![1, b'n', 0];
            v.extend(window(w, len, r));
            embed(47, &v, f, &mut out, false);
            if w < 2 || w == 255 {
                let mut v = vec![1, 0, 0, 1, 0, 20];
                v.extend(r.bytes(20));
                v.extend(window(w, len, r));
                embed(50, &v, f, &mut out, false);
                let mut v = vec![0, 0, 0, 1, 0, 3];
                v.extend(window(w, len, r));
                embed(62, &v, f, &mut out, false);
            }
        }
    }
    // 16-bit length fields and trailing blobs, 0..=300
    for n in 0..=300usize {
        let blob = r.bytes(n);
        let mut v = vec![0, 10];
        v.extend((n as u16).to_be_bytes());
        v.extend(&blob);
        embed(41, &v, f, &mut out, false);
        for (t, head) in [
            (43u16, vec![0u8, 1, 8, 2]),
            (48, vec![1, 1, 3, 8]),
            (25, vec![1, 0, 3, 8]),
            (37, vec![0, 1, 0, 2, 8, b'c']),
            (52, vec![3, 1, 1]),
            (44, vec![1, 1]),
            (61, vec![]),
            (10, vec![]),
            (257, vec![0, 5, b'i', b's', b's', b'u', b'e']),
        ] {
            let mut v = head;
            v.extend(&blob);
            embed(t, &v, f, &mut out, false);
        }
        // TSIG: MAC of n octets, other data of n octets
        for (m, o) in [(n, 0usize), (0, n)] {
            let mut v = vec![11];
            v.extend(b"hmac-sha256");
            v.push(0);
            v.extend([0, 0, 0, 0, 0, 1, 1, 44]);
            v.extend((m as u16).to_be_bytes());
            v.extend(r.bytes(m));
            v.extend([0x12, 0x34, 0, 0]);
            v.extend((o as u16).to_be_bytes());
            v.extend(r.bytes(o));
            embed(250, &v, f, &mut out, n % 50 == 0);
        }
        // SVCB unknown key with n octets
        let mut v = vec![0, 1, 0, 0x12, 0x34];
        v.extend((n as u16).to_be_bytes());
        v.extend(&blob);
        embed(64, &v, f, &mut out, false);
    }
    out
}

// ---------------------------------------------------------------- family: every decoder sees every shape
// For every record type: one (quick) / several (thorough) small well-formed RDATA, then
//   * truncated at every offset               (`rdata`, and `record` whose RDLENGTH is the truncated length)
//   * every octet +1 and -1                   (hits every length / count / code field without knowing the format)
//   * trailing garbage of 1, 2 and a few octets (`rdata`, and `record` whose RDLENGTH covers the garbage)
fn shape_cases(r: &mut Rng, samples: usize) -> Vec<String> {
    let mut out = vec![];
    for &t in WIRE_TYPES {
        let mut got = 0;
        let mut tries = 0;
        while got < samples && tries < 400 {
            tries += 1;
            let rd = if SEEDED.contains(&t) && r.chance(1, 2) { seed_rdata(r, t) } else { extreme_rdata(r, t) };
            if rd.is_empty() || rd.len() > 90 {
                continue;
            }
            if !matches!(catch(|| RData::read(BinDecoder::new(&rd), RecordType::from(t)).is_ok()), Ok(true)) {
                continue;
            }
            got += 1;
            let rec_of = |rd: &[u8]| {
                let (owner, class): (&[u8], u16) = if t == 41 { (&[0], 4096) } else { (&[1, b'o', 0], 1) };
                let mut v = owner.to_vec();
                v.extend(t.to_be_bytes());
                v.extend(class.to_be_bytes());
                v.extend([0, 0, 0, 60]);
                v.extend((rd.len() as u16).to_be_bytes());
                v.extend(rd);
                v
            };
            for n in 0..rd.len() {
                out.push(format!("rdata {t} {} 0 #truncate", hex(&rd[..n])));
                if n > 0 {
                    out.push(format!("record {} 0 #truncate", hex(&rec_of(&rd[..n]))));
                }
            }
            for i in 0..rd.len() {
                for d in [1u8, 255] {
                    let mut m = rd.clone();
                    m[i] = m[i].wrapping_add(d);
                    out.push(format!("rdata {t} {} 0 #plusminus1", hex(&m)));
                }
            }
            for g in [vec![0u8], vec![0xFF], vec![0, 0], vec![0xC0, 0x00], r.bytes(5)] {
                let mut m = rd.clone();
                m.extend(&g);
                out.push(format!("rdata {t} {} 0 #trailing", hex(&m)));
                out.push(format!("record {} 0 #trailing", hex(&rec_of(&m))));
                // garbage after the record (outside RDLENGTH) must be left alone by Record::read
                let mut rec = rec_of(&rd);
                rec.extend(&g);
                out.push(format!("record {} 0 #trailing", hex(&rec)));
            }
        }
        if got < samples {
            out.push(format!("rdata {t} - 0 #shape-sample-missing"));
        }
    }
    out
}

// ---------------------------------------------------------------- family: code tables
// Every u8 / u16 coded field goes through a `From<u8>` / `From<u16>` table with one arm per assigned
// value; an arm that is never taken is an arm on which code and model were never compared.
fn enum_cases() -> Vec<String> {
    let mut out = vec![];
    let mut push = |t: u16, rd: Vec<u8>| out.push(format!("rdata {t} {} 0 #enum", hex(&rd)));
    let u16s: Vec<u16> = (0u16..=26).chain([250, 251, 252, 253, 254, 255, 256, 257, 4095, 4096, 65279, 65280, 65281, 65534, 65535]).collect();
    for v in 0..=255u8 {
        push(25, vec![1, 0, v, 8, b'k']); // KEY protocol
        push(25, vec![1, 0, 3, v, b'k']); // KEY algorithm
        push(48, vec![1, 1, 3, v, b'k']); // DNSKEY algorithm
        push(48, vec![1, 1, v, 8, b'k']); // DNSKEY protocol
        push(60, vec![1, 1, 3, v, b'k']); // CDNSKEY algorithm (0 = delete)
        push(43, vec![0, 1, v, 2, b'd']); // DS algorithm
        push(43, vec![0, 1, 8, v, b'd']); // DS digest type
        push(59, vec![0, 1, v, v, b'd']); // CDS
        let mut sig = vec![0, 1, v, 2, 0, 0, 14, 16, 0, 0, 0, 2, 0, 0, 0, 1, 0xBE, 0xEF, 0];
        sig.push(b's');
        push(46, sig); // RRSIG algorithm
        push(37, vec![0, 1, 0, 2, v, b'c']); // CERT algorithm
        push(52, vec![v, 1, 1, b'd']); // TLSA usage
        push(52, vec![3, v, 1, b'd']); // TLSA selector
        push(53, vec![3, 1, v, b'd']); // SMIMEA matching
        push(44, vec![v, 1, b'f']); // SSHFP algorithm
        push(44, vec![1, v, b'f']); // SSHFP fingerprint type
        push(50, vec![v, 0, 0, 1, 0, 1, b'h']); // NSEC3 hash algorithm
        push(50, vec![1, v, 0, 1, 0, 1, b'h']); // NSEC3 flags
        push(51, vec![1, v, 0, 1, 0]); // NSEC3PARAM flags
        push(257, vec![v, 1, b'a', b'v']); // CAA flags
        push(62, vec![0, 0, 0, 1, 0, v]); // CSYNC flags, low octet
        push(62, vec![0, 0, 0, 1, v, 0]); // CSYNC flags, high octet
    }
    for v in u16s.iter().copied() {
        let b = v.to_be_bytes();
        push(37, vec![b[0], b[1], 0, 2, 8, b'c']); // CERT type
        let mut sig = vec![b[0], b[1], 8, 2, 0, 0, 14, 16, 0, 0, 0, 2, 0, 0, 0, 1, 0xBE, 0xEF, 0];
        sig.push(b's');
        push(24, sig); // SIG type covered
        // TSIG error code
        let mut t = vec![11];
        t.extend(b"hmac-sha256");
        t.extend([0, 0, 0, 0, 0, 0, 1, 1, 44, 0, 0, 0x12, 0x34, b[0], b[1], 0, 0]);
        push(250, t);
        // OPT option code with empty / 8-octet / subnet-shaped data
        push(41, vec![b[0], b[1], 0, 0]);
        let mut o = vec![b[0], b[1], 0, 8];
        o.extend([0, 1, 24, 0, 192, 0, 2, 9]);
        push(41, o);
        // SVCB parameter key with an empty / 2-octet / 4-octet value
        for val in [&[][..], &[0, 80], &[192, 0, 2, 1], &[2, b'h', b'2']] {
            let mut sv = vec![0, 1, 0, b[0], b[1]];
            sv.extend((val.len() as u16).to_be_bytes());
            sv.extend(val);
            push(64, sv);
        }
        // type bitmap naming that type
        let mut n = vec![0, (v >> 8) as u8, ((v & 0xFF) / 8 + 1) as u8];
        n.extend(vec![0u8; ((v & 0xFF) / 8) as usize]);
        n.push(0x80 >> (v & 7));
        push(47, n);
    }
    drop(push);
    // header: every opcode x every rcode, all flag bits; question type / class tables
    for op in 0..16u8 {
        for rc in 0..16u8 {
            let m = vec![0, 1, (op << 3) | if rc % 2 == 0 { 0x85 } else { 0x02 }, rc | if op % 2 == 0 { 0xB0 } else { 0x40 }, 0, 0, 0, 0, 0, 0, 0, 0];
            out.push(format!("msg {} #enum", hex(&m)));
        }
    }
    for v in u16s.iter().copied().chain(27..=70).chain([99, 249, 32768, 32769, 65305]) {
        let b = v.to_be_bytes();
        let mut m = vec![0, 1, 1, 0, 0, 1, 0, 0, 0, 0, 0, 0, 1, b'q', 0, b[0], b[1], 0, 1];
        out.push(format!("msg {} #enum", hex(&m)));
        m[17] = b[0];
        m[18] = b[1];
        m[15] = 0;
        m[16] = 1;
        out.push(format!("req {} #enum", hex(&m)));
        // record class / OPT payload size, extended rcode with that high part
        let mut r = vec![0, 1, 0x81, 0x83, 0, 0, 0, 1, 0, 0, 0, 1];
        r.extend([1, b'o', 0, 0, 1, b[0], b[1], 0, 0, 0, 1, 0, 4, 1, 2, 3, 4]);
        r.extend([0, 0, 41, b[0], b[1], b[1], b[0], b[0], b[1], 0, 0]);
        out.push(format!("msg {} #enum", hex(&r)));
    }
    out
}

// ---------------------------------------------------------------- family: CAA values (second-stage parsers)
fn caa_value_cases(r: &mut Rng, n: usize) -> Vec<String> {
    const VALUES: &[&[u8]] = &[
        b"", b";", b"ca.example.net", b"ca.example.net.", b"ca.example.net; account=230123", b"; policy=ev", b"ca.example.net;a=b;c=d;",
        b"ca.example.net; a-b=c", b"ca.example.net; -a=c", b"ca.example.net; a", b"ca.example.net; a=", b"ca.example.net; =b", b"ca.example.net; a=b c",
        b"ca.example.net;\ta=b", b"\\", b"a\\", b"a\\.b", b"a\\046b", b"a\\04", b"a\\999", b"a\\0", b"\\000", b"a..b", b".", b"..", b"*", b"*.example", b"xn--zz", b"xn--",
        b"-a", b"a b", b"a\x00b", b"\xff\xfe", b"\xc3\x28", b"a%b", b"\"a\"", b"'", b"a;b;c", b";;;;", b"a;=;", b"a;b==c", b"a;b=c=d",
        b"mailto:security@example.com", b"https://iodef.example.com/", b"http://[::1]:80/", b"http://[", b"://", b"a:", b"file:///etc/passwd", b"http://a b/", b"http://\xff/", b"HTTP://EXAMPLE.COM:65536/",
    ];
    let mut out = vec![];
    let tags: [&[u8]; 6] = [b"issue", b"issuewild", b"iodef", b"ISSUE", b"IoDef", b"foo"];
    for (i, v) in VALUES.iter().enumerate() {
        for tag in [tags[i % 3], tags[3 + i % 3]] {
            let mut rd = vec![if i % 2 == 0 { 0 } else { 128 }, tag.len() as u8];
            rd.extend(tag);
            rd.extend(*v);
            out.push(format!("rdata 257 {} 0 #caa-value", hex(&rd)));
        }
    }
    // long labels / long names in the issuer name, random printable and random octets
    for k in 0..n {
        let v: Vec<u8> = match k % 5 {
            0 => vec![b'a'; *r.pick(&[63usize, 64, 253, 254, 255, 256, 1000])],
            1 => std::iter::repeat(&b"abcdefgh."[..]).take(r.range(1, 40) as usize).flatten().copied().collect(),
            2 => (0..r.range(1, 40)).map(|_| *r.pick(b"ab.;= \\019-_*\t")).collect(),
            3 => {
                let n = r.range(1, 30) as usize;
                r.bytes(n)
            }
            _ => {
                let mut s = b"ca.example; ".to_vec();
                s.extend((0..r.range(1, 30)).map(|_| *r.pick(b"ab=;- 0\t")));
                s
            }
        };
        let tag = tags[k % 3];
        let mut rd = vec![0, tag.len() as u8];
        rd.extend(tag);
        rd.extend(v);
        out.push(format!("rdata 257 {} 0 #caa-value", hex(&rd)));
    }
    out
}

/// `Message::read_queries` with counts around what the buffer holds
fn readq_cases(r: &mut Rng, n: usize) -> Vec<String> {
    let mut out = vec![];
    for _ in 0..n {
        let k = r.below(4) as usize;
        let pre = *r.pick(&[0usize, 2, 12]);
        let mut buf = r.bytes(pre);
        let pos = buf.len();
        for _ in 0..k {
            buf.extend(if r.chance(1, 4) && pos >= 2 { entry_name(r, &[0, pos]) } else { xname(r) });
            buf.extend((*r.pick(ALL_TYPES)).to_be_bytes());
            buf.extend((*r.pick(&[1u16, 3, 4, 254, 255, 0, 512])).to_be_bytes());
        }
        if r.chance(1, 4) && !buf.is_empty() {
            let cut = r.below(buf.len() as u64) as usize;
            buf.truncate(cut.max(pos));
        }
        for count in [k, k + 1, k.saturating_sub(1), 0, 65535] {
            out.push(format!("readq {count} {} {pos} #readq", hex(&buf)));
        }
    }
    out
}

fn generate(o: &Opts, rec: &mut Recorder, w: &Watch) {
    let mut r = Rng::new(o.seed);
    // pointer graphs first: a pointer cycle that is followed is a hang, better found early
    for l in pointer_graph_cases(&mut r, if o.thorough() { 60_000 } else { 1500 }) {
        let op = l.split(' ').next().unwrap_or("?").to_string();
        rec.stat(&format!("gen.family.pointer-graph.{op}"));
        exec(&l, rec, w);
    }
    let mut fam = extreme_cases(&mut r, if o.thorough() { 400 } else { 24 });
    if o.thorough() {
        fam.extend(sweep_cases(&mut r));
    }
    fam.extend(shape_cases(&mut r, if o.thorough() { 8 } else { 1 }));
    fam.extend(enum_cases());
    fam.extend(caa_value_cases(&mut r, if o.thorough() { 5000 } else { 150 }));
    fam.extend(readq_cases(&mut r, if o.thorough() { 4000 } else { 120 }));
    rec.stat(&format!("info.size_of.Record.{}", std::mem::size_of::<Record>()));
    rec.stat(&format!("info.size_of.Query.{}", std::mem::size_of::<Query>()));
    for l in fam {
        // "<case line> #<family>"
        let (line, tag) = l.rsplit_once(" #").unwrap_or((&l, "?"));
        let mut t = line.split(' ');
        let op = t.next().unwrap_or("?").trim_end_matches('!');
        rec.stat(&format!("gen.family.{tag}.{op}"));
        if op == "rdata" {
            rec.stat(&format!("gen.family.{tag}.type.{}", t.next().unwrap_or("?")));
        } else if op == "record" && (tag == "truncate" || tag == "trailing") {
            // type code of the record: after the owner (1 octet root or 3 octets "o.")
            if let Some(b) = t.next().and_then(unhex) {
                let off = if b.first() == Some(&0) { 1 } else { 3 };
                if let Some(ty) = u16_at(&b, off) {
                    rec.stat(&format!("gen.family.{tag}.rectype.{ty}"));
                }
            }
        }
        exec(line, rec, w);
    }
    for l in big_cases(o.thorough()) {
        exec(&l, rec, w);
    }
    // RData::read for every RecordType code on empty / short / seed / random input
    for &t in ALL_TYPES {
        for k in 0..(if o.thorough() { 40 } else { 8 }) {
            let data = match k % 4 {
                0 => vec![],
                1 => seed_rdata(&mut r, t),
                2 => {
                    let mut s = seed_rdata(&mut r, t);
                    mutate(&mut r, &mut s);
                    s
                }
                _ => {
                    let n = r.below(24) as usize;
                    r.bytes(n)
                }
            };
            exec(&format!("rdata {t} {} 0", hex(&data)), rec, w);
        }
    }
    if o.thorough() {
        // every single-byte mutation (all 256 values at every position) of 40 small seed messages
        let mut seeds = 0;
        while seeds < 40 {
            let buf = gen_message(&mut r, rec, seeds % 2 == 0, false);
            if buf.len() > 110 || buf.len() < 30 {
                continue;
            }
            seeds += 1;
            for i in 0..buf.len() {
                for v in 0..=255u8 {
                    if v != buf[i] {
                        let mut m = buf.clone();
                        m[i] = v;
                        rec.stat("gen.exhaustive-byte");
                        exec(&format!("msg {}", hex(&m)), rec, w);
                    }
                }
            }
        }
    }
    let n = o.n(2500, 150_000);
    for i in 0..n {
        let tier1 = i % 3 != 2;
        let request = i % 5 == 4;
        let mut buf = gen_message(&mut r, rec, tier1, request);
        let op = if request || r.chance(1, 6) { "req" } else { "msg" };
        match i % 4 {
            0 => {
                rec.stat("gen.valid");
                exec(&format!("{op} {}", hex(&buf)), rec, w);
                // pieces of the valid message through the other entry points
                let (qs, rs) = walk(&buf);
                if let Some(q) = qs.first() {
                    exec(&format!("name {} {q}", hex(&buf)), rec, w);
                }
                for (p, t, s, e) in rs.iter().take(3) {
                    exec(&format!("record {} {p}", hex(&buf)), rec, w);
                    if e > s {
                        exec(&format!("rdata {t} {} {s}", hex(&buf[..*e])), rec, w);
                        if r.chance(1, 3) {
                            exec(&format!("rdata {} {} {s}", r.pick(ALL_TYPES), hex(&buf[..*e])), rec, w);
                        }
                        if *s > 0 && r.chance(1, 2) {
                            exec(&format!("name {} {}", hex(&buf), r.range(*s as u64, *e as u64 - 1)), rec, w);
                        }
                    }
                }
            }
            1 | 2 => {
                let k = r.range(1, 3);
                for _ in 0..k {
                    let m = mutate(&mut r, &mut buf);
                    rec.stat(&format!("gen.mutation.{m}"));
                }
                buf.truncate(65535);
                exec(&format!("{op} {}", hex(&buf)), rec, w);
                if r.chance(1, 3) {
                    let (_, rs) = walk(&buf);
                    if let Some((p, _, _, _)) = rs.first() {
                        exec(&format!("record {} {p}", hex(&buf)), rec, w);
                    }
                    let p = r.below(buf.len() as u64 + 1);
                    exec(&format!("name {} {p}", hex(&buf)), rec, w);
                }
            }
            _ => {
                // random bytes, with or without a plausible header
                rec.stat("gen.random");
                let n = *r.pick(&[0usize, 5, 11, 12, 13, 17, 30, 60, 200]);
                let mut v = r.bytes(n);
                if n >= 12 && r.chance(2, 3) {
                    v[2] &= 0x87;
                    v[4] = 0;
                    v[5] = r.below(3) as u8;
                    for f in [6, 8, 10] {
                        v[f] = 0;
                        v[f + 1] = r.below(3) as u8;
                    }
                    // make label lengths small so that parsing gets somewhere
                    for x in v[12..].iter_mut() {
                        if r.chance(1, 2) {
                            *x %= 8;
                        }
                    }
                }
                exec(&format!("{op} {}", hex(&v)), rec, w);
                exec(&format!("record {} {}", hex(&v), r.below(v.len() as u64 + 1)), rec, w);
                exec(&format!("name {} {}", hex(&v), r.below(v.len() as u64 + 1)), rec, w);
            }
        }
    }
}

pub fn run(o: &Opts, rec: &mut Recorder) {
    rec.rule = "families: (1) valid messages of every RData variant built with the repo's own types, then mutated (bit flips, truncation, count / RDLENGTH / type / pointer edits, inserts, deletes); (2) pointer graphs: labels / roots / 2-octet pointers targeting each other in any direction (self-loops, 2- and 3-cycles, chains into cycles, pointers into header octets chosen to read as pointers or labels) with the decoded name starting after them, through name / record / msg / req; (3) extreme but well-formed RDATA of every type written from the wire formats, every length-prefixed field at its boundaries with the octets present, names up to 255 octets, RDLENGTH fitting exactly, as rdata / record / msg (thorough: exhaustive sweep of every one-octet length field, every bitmap window number x length, every name length, 16-bit lengths 0..300); (4) random bytes; (5) pieces of messages through Record::read / RData::read (every RecordType code) / Name::read at arbitrary offsets; (6) oversized adversarial inputs and the adversarial corpus; a case is non-trivial when the decode succeeded and (msg) the message has records and compression pointers, (name) the name was reached through a pointer; distinct by case line".into();
    let w = Arc::new(Watch { progress: AtomicU64::new(0), current: Mutex::new(String::new()) });
    let done = Arc::new(AtomicU64::new(0));
    // watchdog: a case that makes no progress for `stuck` is a true hang.  The stuck case is written to
    // <out>/HANG.case and to stdout as `HANG: <case>`, then this process (only this process) exits 3;
    // bin/check turns that into a VIOLATION whose replay is the hung case.
    let stuck = if o.thorough() { STUCK_THOROUGH } else { STUCK_QUICK };
    let out_dir = o.out.clone();
    let _ = std::fs::remove_file(out_dir.join("HANG.case"));
    {
        let (w, done) = (w.clone(), done.clone());
        std::thread::spawn(move || {
            let mut last = (0u64, Instant::now());
            loop {
                std::thread::sleep(Duration::from_millis(500));
                if done.load(Ordering::SeqCst) == 1 {
                    return;
                }
                let p = w.progress.load(Ordering::SeqCst);
                if p != last.0 {
                    last = (p, Instant::now());
                } else if last.1.elapsed() > stuck {
                    let cur = match w.current.lock() {
                        Ok(s) => s.clone(),
                        Err(e) => e.into_inner().clone(),
                    };
                    let _ = std::fs::create_dir_all(&out_dir);
                    let _ = std::fs::write(out_dir.join("HANG.case"), format!("{cur}\n"));
                    println!("HANG: {cur}");
                    eprintln!("HANG: no progress for {stuck:?} on case #{p} (written to {}/HANG.case)", out_dir.display());
                    use std::io::Write as _;
                    let _ = std::io::stdout().flush();
                    std::process::exit(3);
                }
            }
        });
    }
    for l in o.pre_lines.clone() {
        exec(&l, rec, &w);
    }
    rec.corpus_cases = rec.cases.len();
    if !o.replay_only {
        generate(o, rec, &w);
    }
    done.store(1, Ordering::SeqCst);
}
