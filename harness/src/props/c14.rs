//! C14 — journal-backed zones survive a stop at any point.
//!
//! A history: `beginj <origin> <rec>*` (zone loaded, real sqlite journal file attached,
//! `persist_to_journal`), `upd P.. U..` messages (the `ZoneHandler::update` order, as in C12), then for
//! every row count k `cut k`: the journal file is copied, rows with `_rowid_ > k` are deleted (every
//! `insert_record` is its own sqlite commit, so these are exactly the on-disk states a stop can leave) and a
//! handler is rebuilt from the copy with the real `SqliteZoneHandler::try_from_config`.  `restart k` does the
//! same and continues the history on the recovered handler (journal = the cut copy); more `cut`s then give
//! the second crash.  The generator writes `cutall` / `restartb n`, which are expanded into explicit
//! `cut k` / `restart k` case lines when the row counts are known.
//!
//! Oracle (independent of the model): the recovered zone + serial equal the live handler's state at a
//! message boundary not older than the last message whose rows (incl. its SOA row) are all ≤ k — i.e. the
//! last acknowledged one; recovery never fails; after a restart every further message gets the same answer
//! and leaves the same zone + serial as on a twin handler that never restarted.
use std::path::{Path, PathBuf};

use hickory_proto::rr::{Name, Record};
use hickory_server::store::sqlite::{Journal, SqliteConfig, SqliteZoneHandler};
use hickory_server::zone_handler::{AxfrPolicy, ZoneType};

use super::c12::{self, Handler, Snap};
use crate::common::*;

pub const CL_CUT: &str = "cut-inside-update-row-group";

struct Boundary {
    rows: usize,
    snap: Snap,
    /// how many messages of `msgs` lie before this boundary
    n_msgs: usize,
    /// the message that ends here was acknowledged with NOERROR (the initial dump counts as acknowledged)
    acked: bool,
}

/// what identifies one journal row on disk: rowid, timestamp column, record blob
type RowId = (i64, String, Vec<u8>);

fn fingerprints(path: &Path) -> Vec<RowId> {
    let Ok(j) = Journal::from_file(path) else { return vec![] };
    let conn = j.conn();
    let Ok(mut stmt) = conn.prepare("SELECT _rowid_, timestamp, record FROM records ORDER BY _rowid_") else { return vec![] };
    let rows = stmt.query_map((), |row| Ok((row.get::<_, i64>(0)?, row.get::<_, String>(1)?, row.get::<_, Vec<u8>>(2)?)));
    match rows {
        Ok(it) => it.filter_map(|r| r.ok()).collect(),
        Err(_) => vec![],
    }
}

struct Hist {
    rt: tokio::runtime::Runtime,
    dir: PathBuf,
    origin: Name,
    initial: Vec<Record>,
    h: Option<Handler>,
    /// messages executed so far (prerequisites, updates), one per boundary after the first
    msgs: Vec<(Vec<Record>, Vec<Record>)>,
    /// `boundaries[0]` = after the initial dump; `boundaries[i]` = after message i
    boundaries: Vec<Boundary>,
    /// the journal file the current handler writes to
    live: PathBuf,
    /// handler that never restarted (no journal), fed the same messages — only after a restart
    twin: Option<Handler>,
    restarts: u32,
    n_files: u32,
    hist_no: u64,
    /// the history started from a zone FILE through `try_from_config` (`beginf`): no model side
    no_model: bool,
}

/// zone files for the first start (`try_from_config`: load the file, create the journal, dump) — with what a zone file may
/// hold and an UPDATE may not: glue of an out-of-zone name server, a stray out-of-zone record, DS at a delegation, wildcards
const ZONE_FILES: [&str; 2] = [
    "@ 3600 IN SOA ns1.example.com. admin.example.com. 100 3600 600 86400 300\n\
     @ 3600 IN NS ns1.example.com.\n\
     @ 3600 IN NS ns.example.net.\n\
     ns.example.net. 300 IN A 198.51.100.53\n\
     other.org. 300 IN TXT \"stray\"\n\
     a 300 IN A 10.0.0.1\n\
     a 300 IN TXT \"t1\"\n\
     alias 300 IN CNAME a\n\
     sub 300 IN NS ns.sub\n\
     sub 300 IN DS 12345 8 2 00112233445566778899aabbccddeeff00112233445566778899aabbccddeeff\n\
     ns.sub 300 IN A 10.0.0.9\n\
     *.w 300 IN TXT \"wild\"\n\
     mx 300 IN MX 10 a\n",
    "@ 3600 IN SOA ns1.example.com. admin.example.com. 4294967295 3600 600 86400 300\n\
     @ 3600 IN NS ns1.example.com.\n\
     @ 300 IN MX 10 mail\n\
     @ 300 IN TXT \"apex\"\n\
     @ 300 IN A 10.0.0.7\n\
     @ 300 IN AAAA 2001:db8::7\n\
     @ 300 IN CAA 0 issue \"letsencrypt.org\"\n\
     mail 300 IN A 10.0.0.8\n\
     * 300 IN A 10.0.0.9\n\
     _sip._tcp 300 IN SRV 1 2 5060 mail\n",
];

/// the TSIG key of `c12::signer()` as configuration: a key file next to the journal (so that a restarted server still
/// authorises the signed updates)
fn tsig_keys(dir: &Path) -> Vec<hickory_server::store::sqlite::TsigKeyConfig> {
    let key_file = dir.join("update-key.tsig");
    let _ = std::fs::write(&key_file, b"0123456789abcdef0123456789abcdef");
    vec![hickory_server::store::sqlite::TsigKeyConfig {
        name: "update-key.".to_string(),
        key_file,
        algorithm: hickory_proto::rr::rdata::tsig::TsigAlgorithm::HmacSha256,
        fudge: 300,
    }]
}

fn count_rows(path: &Path) -> usize {
    Journal::from_file(path).map(|j| j.iter().count()).unwrap_or(0)
}

fn fast_pragmas(j: &Journal) {
    // durability of sqlite is trusted, not tested: skip the fsyncs
    let _ = j.conn().execute_batch("PRAGMA synchronous=OFF;");
}

/// copy of `src` cut after row k
fn cut_copy(src: &Path, dst: &Path, k: usize) -> bool {
    let _ = std::fs::remove_file(dst);
    if std::fs::copy(src, dst).is_err() {
        return false;
    }
    let Ok(j) = Journal::from_file(dst) else { return false };
    let ok = j.conn().execute(&format!("DELETE FROM records WHERE _rowid_ > {k}"), ()).is_ok();
    ok
}

/// the real start-up path of a journal-backed zone
fn recover(rt: &tokio::runtime::Runtime, origin: &Name, journal: &Path) -> Result<Handler, String> {
    let cfg = SqliteConfig {
        zone_path: journal.with_extension("no-such-zone-file"),
        journal_path: journal.to_path_buf(),
        allow_update: true,
        tsig_keys: tsig_keys(journal.parent().unwrap_or(Path::new("."))),
    };
    match catch(|| rt.block_on(SqliteZoneHandler::try_from_config(origin.clone(), ZoneType::Primary, AxfrPolicy::Deny, false, None, &cfg, None))) {
        Ok(Ok(h)) => {
            if let Some(j) = rt.block_on(h.journal()).as_ref() {
                fast_pragmas(j);
            }
            Ok(h)
        }
        Ok(Err(e)) => Err(e),
        Err(p) => Err(format!("panic: {p}")),
    }
}

fn same_state(a: &Snap, b: &Snap) -> bool {
    let mut x = a.rrs.clone();
    let mut y = b.rrs.clone();
    x.sort();
    y.sort();
    x == y && a.serial == b.serial
}

impl Hist {
    /// The open finding covers a STOP between the rows of one *acknowledged* UPDATE (or inside the initial dump) and
    /// nothing else: rows that a refused message left behind are not a row group of anything.
    fn cut_class(&self, k: usize) -> &'static str {
        if self.boundaries.iter().any(|b| b.rows == k) {
            return "";
        }
        match self.boundaries.iter().find(|b| b.rows > k) {
            Some(b) if b.acked => CL_CUT,
            _ => "",
        }
    }

    /// is `s` the live state at a boundary not older than `last`?
    fn boundary_state(&self, last: Option<usize>, s: &Snap) -> bool {
        match last {
            Some(i) => self.boundaries[i..].iter().any(|b| same_state(&b.snap, s)),
            None => false,
        }
    }

    /// The property's "optional second crash": the recovery itself may have written to the journal
    /// (`before` = the rows it started from, `after` = the rows it left).  Whatever it wrote was written
    /// row by row, so a stop during start-up leaves `after[..i]` for some i from the common prefix on;
    /// each of these on-disk states — and the final one — must recover to a boundary state again, and
    /// none older than the last acknowledged message.
    fn judge_second_crash(&mut self, k: usize, journal: &Path, before: &[RowId], after: &[RowId], first: &Result<Snap, String>, rec: &mut Recorder, idx: usize) {
        if before == after {
            return; // the recovery did not touch the journal: a second stop finds what the first one found
        }
        rec.stat("recovery.modified-the-journal");
        let last = self.boundaries.iter().rposition(|b| b.rows <= k);
        let class = self.cut_class(k);
        let inside = !class.is_empty();
        let common = before.iter().zip(after.iter()).take_while(|(a, b)| a == b).count();
        let tmp = self.dir.join("second.sqlite");
        for i in common..=after.len() {
            let upto = if i == 0 { 0 } else { after[i - 1].0 as usize };
            if !cut_copy(journal, &tmp, upto) {
                continue;
            }
            let what = match recover(&self.rt, &self.origin, &tmp) {
                Err(e) => Some(format!("recovery failed: {e}")),
                Ok(h) => {
                    let s = c12::snapshot(&self.rt, &h);
                    let ok = if i == after.len() { first.as_ref().map(|f| same_state(f, &s)).unwrap_or(false) } else { true };
                    if !self.boundary_state(last, &s) {
                        Some(format!("recovered a zone (serial {}, {} records) that is no message boundary at or after the last acknowledged one", s.serial, s.rrs.len()))
                    } else if !ok {
                        Some("recovered a different zone than the recovery that wrote this journal".to_string())
                    } else {
                        None
                    }
                }
            };
            if let Some(w) = what {
                rec.stat(&format!("oracle.fail.{}", if inside { CL_CUT } else { "UNCLASSIFIED" }));
                rec.fail(
                    idx,
                    format!(
                        "the recovery from the journal cut after row {k} rewrote the journal ({} rows before, {} after, {} in common); a stop during that start-up leaving {} of the new rows: {w}",
                        before.len(), after.len(), common, i
                    ),
                    class,
                );
                break;
            }
        }
    }

    /// judge a recovery from the first k rows of the live journal
    fn judge_cut(&self, k: usize, got: &Result<Snap, String>, rec: &mut Recorder, idx: usize) {
        // last boundary whose rows are all on disk = the last acknowledged message
        let last = self.boundaries.iter().rposition(|b| b.rows <= k);
        let class = self.cut_class(k);
        let inside = !class.is_empty();
        rec.stat(if inside { "cut.inside-row-group" } else if self.boundaries.iter().any(|b| b.rows == k) { "cut.at-boundary" } else { "cut.inside-rows-of-a-refused-message" });
        match got {
            Err(e) => {
                rec.stat(&format!("oracle.fail.{}", if inside { CL_CUT } else { "UNCLASSIFIED" }));
                rec.fail(idx, format!("recovery from the journal cut after row {k} failed: {e}"), class);
            }
            Ok(s) => {
                let ok = match last {
                    Some(i) => self.boundaries[i..].iter().any(|b| same_state(&b.snap, s)),
                    None => false, // stopped before the initial dump was complete: there is no boundary yet
                };
                if !ok {
                    let what = match last {
                        Some(i) => format!(
                            "journal cut after row {k}: recovered zone (serial {}) is not the zone at any message boundary from message {i} (serial {}) on — a half-applied update",
                            s.serial, self.boundaries[i].snap.serial
                        ),
                        None => format!("journal cut after row {k} (inside the initial zone dump): recovered a partial zone with {} records, serial {}", s.rrs.len(), s.serial),
                    };
                    rec.stat(&format!("oracle.fail.{}", if inside { CL_CUT } else { "UNCLASSIFIED" }));
                    rec.fail(idx, what, class);
                } else if let Some(i) = last {
                    // the serial is never lower than one the server had answered with
                    if c12::serial_lt(s.serial, self.boundaries[i].snap.serial) {
                        rec.fail(idx, format!("recovered serial {} is lower than the acknowledged serial {}", s.serial, self.boundaries[i].snap.serial), class);
                    }
                }
            }
        }
    }

    fn do_cut(&mut self, k: usize, restart: bool, rec: &mut Recorder) {
        // the third token only makes the case text unique per history (the model ignores it)
        let line = format!("{} {k} h{}", if restart { "restart" } else { "cut" }, self.hist_no);
        self.n_files += 1;
        if restart {
            // a real restart: the process is gone — its connection is closed (an open transaction is rolled back)
            // before the journal file is opened afresh
            self.h = None;
            self.twin = None;
        }
        let dst = if restart { self.dir.join(format!("restart-{}.sqlite", self.n_files)) } else { self.dir.join("cut.sqlite") };
        if !cut_copy(&self.live, &dst, k) {
            rec.stat("skipped.cut-copy-failed");
            return;
        }
        let rows_before = fingerprints(&dst);
        let r = recover(&self.rt, &self.origin, &dst);
        let rows_after = fingerprints(&dst);
        let got: Result<Snap, String> = match &r {
            Ok(h) => Ok(c12::snapshot(&self.rt, h)),
            Err(e) => Err(e.clone()),
        };
        let out = match &got {
            Ok(s) => format!("rec ok {} {} {}", s.serial, count_rows(&dst), s.dump),
            Err(_) => "rec err".to_string(),
        };
        let out = if self.no_model { "~".to_string() } else { out };
        let idx = rec.case(line, out);
        rec.stat(if restart { "op.restart" } else { "op.cut" });
        self.judge_cut(k, &got, rec, idx);
        self.judge_second_crash(k, &dst, &rows_before, &rows_after, &got, rec, idx);
        if got.is_ok() && (self.boundaries.len() > 1 || restart) {
            rec.nontrivial(idx);
        }
        if restart {
            if let Ok(h) = r {
                // continue on the recovered handler; what lies behind the cut never happened
                let keep = self.boundaries.iter().filter(|b| b.rows <= k).count();
                self.boundaries.truncate(keep.max(1));
                let n_msgs = self.boundaries.last().map(|b| b.n_msgs).unwrap_or(0);
                self.msgs.truncate(n_msgs);
                if rows_after != rows_before {
                    // the recovery renumbered / rewrote the rows: the recovered state is the only boundary left
                    if let Ok(s) = &got {
                        self.boundaries = vec![Boundary { rows: rows_after.len(), snap: s.clone(), n_msgs, acked: true }];
                    }
                }
                // a twin that never restarted: initial zone + the surviving messages (a zone-file history has no record list
                // to build one from: there the boundary comparison alone judges)
                if !self.no_model {
                    let twin = c12::new_handler(&self.origin, &self.initial);
                    for (p, u) in &self.msgs {
                        let _ = c12::run_update(&self.rt, &twin, p, u);
                    }
                    self.twin = Some(twin);
                }
                self.h = Some(h);
                self.live = dst;
                self.restarts += 1;
            }
        }
    }
}

fn exec(line: &str, hist: &mut Hist, rec: &mut Recorder) {
    let t: Vec<&str> = line.split_whitespace().collect();
    match t.as_slice() {
        ["beginj", origin, recs @ ..] => {
            let (Some(o), Some(rs)) = (parse_name(origin), recs.iter().map(|x| c12::parse_rec(x)).collect::<Option<Vec<_>>>()) else {
                rec.stat("skipped.unparsable-case");
                return;
            };
            hist.h = None;
            hist.twin = None;
            let _ = std::fs::remove_dir_all(&hist.dir);
            std::fs::create_dir_all(&hist.dir).expect("journal dir");
            hist.live = hist.dir.join("live.sqlite");
            let mut h = c12::new_handler(&o, &rs);
            let j = Journal::from_file(&hist.live).expect("journal");
            fast_pragmas(&j);
            let persisted = hist.rt.block_on(async {
                h.set_journal(j).await;
                h.persist_to_journal().await
            });
            if let Err(e) = persisted {
                // the journal of this zone cannot even be started (and holds a partial dump now)
                let idx = rec.case(line.to_string(), "begin-failed".to_string());
                rec.stat("op.beginj.failed");
                rec.fail(idx, format!("persist_to_journal failed on the initial zone after {} row(s): {e}", count_rows(&hist.live)), "");
                return;
            }
            let s = c12::snapshot(&hist.rt, &h);
            let rows = count_rows(&hist.live);
            rec.case(line.to_string(), format!("begin {} {} {}", s.serial, rows, s.dump));
            rec.stat("op.beginj");
            hist.origin = o;
            hist.initial = rs;
            hist.msgs.clear();
            hist.boundaries = vec![Boundary { rows, snap: s, n_msgs: 0, acked: true }];
            hist.h = Some(h);
            hist.restarts = 0;
            hist.n_files = 0;
            hist.hist_no += 1;
            hist.no_model = false;
        }
        ["end"] => {
            rec.case(line.to_string(), "end".into());
            hist.h = None;
            hist.twin = None;
        }
        ["beginf", which] => {
            // first start from a zone file: the real `try_from_config` loads it, creates the journal and dumps the zone
            hist.h = None;
            hist.twin = None;
            let _ = std::fs::remove_dir_all(&hist.dir);
            std::fs::create_dir_all(&hist.dir).expect("journal dir");
            let origin = Name::from_ascii("example.com.").unwrap();
            let zone_path = hist.dir.join("example.com.zone");
            hist.live = hist.dir.join("live.sqlite");
            let text = ZONE_FILES[which.parse::<usize>().unwrap_or(0) % ZONE_FILES.len()];
            let start = |zone: &Path, journal: &Path| {
                let cfg = SqliteConfig { zone_path: zone.to_path_buf(), journal_path: journal.to_path_buf(), allow_update: true, tsig_keys: tsig_keys(journal.parent().unwrap_or(Path::new("."))) };
                catch(|| hist.rt.block_on(SqliteZoneHandler::try_from_config(origin.clone(), ZoneType::Primary, AxfrPolicy::Deny, false, None, &cfg, None)))
            };
            rec.impl_only += 1;
            let idx = rec.case(line.to_string(), "~".into());
            rec.stat("op.beginf");
            // neither a zone file nor a journal: an error, not a panic and not an empty zone
            match start(&zone_path, &hist.live) {
                Ok(Err(_)) => {}
                Ok(Ok(_)) => rec.fail(idx, "try_from_config produced a zone from neither a zone file nor a journal".to_string(), ""),
                Err(p) => rec.fail(idx, format!("try_from_config panicked without zone file and journal: {p}"), ""),
            }
            let _ = std::fs::remove_file(&hist.live);
            // a zone file that does not parse: an error, and no journal left behind that the next start would take for the zone
            std::fs::write(&zone_path, "@ 3600 IN SOA ns1.example.com. admin.example.com. 1 2 3\n@ IN A not-an-address\n").expect("zone file");
            match start(&zone_path, &hist.live) {
                Ok(Err(_)) => {
                    if hist.live.exists() && count_rows(&hist.live) > 0 {
                        rec.fail(idx, "a start that failed on the zone file left journal rows behind".to_string(), "");
                    }
                }
                Ok(Ok(_)) => rec.fail(idx, "try_from_config accepted a zone file that does not parse".to_string(), ""),
                Err(p) => rec.fail(idx, format!("try_from_config panicked on a bad zone file: {p}"), ""),
            }
            let _ = std::fs::remove_file(&hist.live);
            std::fs::write(&zone_path, text.replace("     ", "")).expect("zone file");
            let h = match start(&zone_path, &hist.live) {
                Ok(Ok(h)) => h,
                Ok(Err(e)) => {
                    rec.fail(idx, format!("the first start from the zone file failed: {e}"), "");
                    return;
                }
                Err(p) => {
                    rec.fail(idx, format!("the first start from the zone file panicked: {p}"), "");
                    return;
                }
            };
            if let Some(j) = hist.rt.block_on(h.journal()).as_ref() {
                fast_pragmas(j);
            }
            let s = c12::snapshot(&hist.rt, &h);
            if !s.rrs.iter().any(|r| r.rtype == c12::T_SOA) {
                rec.fail(idx, "the zone loaded from the file has no SOA".to_string(), "");
            }
            let rows = count_rows(&hist.live);
            hist.initial = vec![];
            hist.origin = origin;
            hist.msgs.clear();
            hist.boundaries = vec![Boundary { rows, snap: s, n_msgs: 0, acked: true }];
            hist.h = Some(h);
            hist.restarts = 0;
            hist.n_files = 0;
            hist.hist_no += 1;
            hist.no_model = true;
            // the zone file is gone from now on: every later start has only the journal
            let _ = std::fs::remove_file(&zone_path);
        }
        ["upd", rest @ ..] | ["updf", rest @ ..] => {
            let (Some(h), Some((p, u))) = (hist.h.as_ref(), c12::split_pu(rest)) else {
                rec.stat("skipped.unparsable-case");
                return;
            };
            // `updf`: the same message through the real `ZoneHandler::update` (TSIG-signed on the wire)
            let full = t[0] == "updf";
            let (stage, res) = if full {
                match c12::run_update_full(&hist.rt, h, &hist.origin, &p, &u) {
                    Some(r) => (if r.starts_with("ok") { "apply" } else { "full" }, r),
                    None => {
                        rec.stat("skipped.unencodable-message");
                        return;
                    }
                }
            } else {
                c12::run_update(&hist.rt, h, &p, &u)
            };
            let after = c12::snapshot(&hist.rt, h);
            let rows = count_rows(&hist.live);
            let out = if hist.no_model {
                rec.impl_only += 1;
                "~".to_string()
            } else if full {
                format!("full {res} {} {} {}", after.serial, rows, after.dump)
            } else {
                format!("{stage} {res} {} {} {}", after.serial, rows, after.dump)
            };
            let idx = rec.case(line.to_string(), out);
            rec.stat(if full { "op.updf" } else { "op.upd" });
            rec.stat(&format!("upd.{stage}.{res}"));
            let prev_rows = hist.boundaries.last().map(|b| b.rows).unwrap_or(0);
            rec.stat(&format!("upd.rows-appended.{}", rows.saturating_sub(prev_rows).min(6)));
            if hist.restarts > 0 {
                rec.stat("upd.after-restart");
                rec.nontrivial(idx);
                // behaves as if no restart had happened
                // (the twin has no journal: a message with an unwritable row is not for it)
                if let Some(tw) = hist.twin.as_ref().filter(|_| u.iter().all(c12::row_fits)) {
                    let (ts, tr) = c12::run_update(&hist.rt, tw, &p, &u);
                    let tsnap = c12::snapshot(&hist.rt, tw);
                    if (ts != stage && !full) || tr != res {
                        rec.fail(idx, format!("after recovery the update answered {stage}/{res}; without a restart it answers {ts}/{tr}"), "");
                    } else if !same_state(&tsnap, &after) {
                        rec.fail(idx, format!("after recovery the update left a different zone than without a restart (serial {} vs {})", after.serial, tsnap.serial), "");
                    }
                }
            }
            if res == "panic" {
                rec.fail(idx, "update panicked".to_string(), "");
            }
            let acked = stage == "apply" && res.starts_with("ok");
            // an RR the journal's row encoder cannot take (> 65 535 octets; only the Rust API can hand one in)
            let unfit = u.iter().any(|r| !c12::row_fits(r));
            if unfit {
                rec.stat("upd.with-unwritable-row");
            }
            if res == "ok1" && rows == prev_rows {
                rec.fail(idx, "the update was acknowledged and changed the zone, but a new connection to the journal sees no new row".to_string(), "");
            }
            if !acked && rows != prev_rows {
                // a refused update must leave no trace: these rows would be replayed by the next start
                rec.fail(idx, format!("the update was refused ({stage}/{res}) but left {} row(s) in the journal", rows.saturating_sub(prev_rows)), "");
            }
            if stage == "apply" && !res.starts_with("ok") && res != "panic" && !unfit {
                // the rows of this message are in the journal already (write-ahead): replay will meet the same error
                rec.fail(idx, format!("update_records answered {res} after pre_scan had accepted the update section; its rows are already journalled"), "");
            }
            if !(unfit && !acked) {
                hist.msgs.push((p, u));
            }
            let n_msgs = hist.msgs.len();
            hist.boundaries.push(Boundary { rows, snap: after, n_msgs, acked });
        }
        ["cut", k] | ["cut", k, _] => {
            if let (Some(_), Ok(k)) = (hist.h.as_ref(), k.parse::<usize>()) {
                hist.do_cut(k, false, rec);
            }
        }
        ["restart", k] | ["restart", k, _] => {
            if let (Some(_), Ok(k)) = (hist.h.as_ref(), k.parse::<usize>()) {
                hist.do_cut(k, true, rec);
            }
        }
        ["cutall"] => {
            // every row count a stop can leave behind
            if hist.h.is_some() {
                let rows = count_rows(&hist.live);
                for k in 0..=rows {
                    hist.do_cut(k, false, rec);
                }
            }
        }
        ["restartb", n] => {
            // restart at the n-th message boundary (counted from the end)
            if let (Some(_), Ok(n)) = (hist.h.as_ref(), n.parse::<usize>()) {
                let i = hist.boundaries.len() - 1 - (n % hist.boundaries.len());
                let k = hist.boundaries[i].rows;
                hist.do_cut(k, true, rec);
            }
        }
        _ => rec.stat("skipped.unparsable-case"),
    }
}

/// C12's message generator (SOA serials up to and across u32::MAX included)
fn gen_msg(rng: &mut Rng) -> String {
    let mut m = c12::gen_msg(rng);
    // most C14 messages carry no prerequisites, so that more of them reach the journal
    if rng.chance(3, 5) {
        if let Some(u) = m.find(" U") {
            m = format!("upd P{}", &m[u..]);
        }
    }
    // one in four through the real `ZoneHandler::update` (signed wire message)
    if rng.chance(1, 4) {
        m = m.replacen("upd ", "updf ", 1);
    }
    m
}

/// every fourth history starts one or two bumps before the serial wraps; every fifth zone also holds a random choice of
/// the records of `every_type_zone` / `out_of_zone_zone`
fn gen_begin(rng: &mut Rng) -> String {
    let mut b = c12::gen_begin(rng, "beginj");
    if rng.chance(1, 5) {
        let pool: Vec<String> = every_type_zone().into_iter().chain(out_of_zone_zone()).filter(|t| !t.contains(",6,1,") && !t.contains(",5,1,")).collect();
        for _ in 0..rng.range(1, 8) {
            b.push(' ');
            let t: &String = rng.pick(&pool[..]);
            b.push_str(t);
        }
    }
    if rng.chance(1, 4) {
        if let (Some(i), Some(j)) = (b.find(",s"), b.find(".0 ")) {
            let serial = *rng.pick(&[4294967295u32, 4294967294, 4294967293]);
            return format!("{},s{}{}", &b[..i], serial, &b[j..]);
        }
    }
    b
}

/// Directed histories (both tiers): an RR with large RDATA — TXT of 300 … 65 000 octets, NULL / unknown type, a
/// 254-octet owner name — at every position of a three-RR update and in the initial zone, then a delete of it,
/// stop / recover at every row, restart, one more message, every row again.
fn directed_large() -> Vec<Vec<String>> {
    let origin = name_tok(&Name::from_ascii("example.com.").unwrap());
    let tok = |name: &str, t: u16, c: u16, ttl: u32, rd: &str| format!("{},{t},{c},{ttl},{rd}", name_tok(&Name::from_ascii(name).unwrap()));
    let base = |extra: &[String]| {
        let mut v = vec![
            tok("example.com.", 6, 1, 3600, "s100.0"),
            tok("example.com.", 2, 1, 3600, "x036e7331076578616d706c6503636f6d00"),
            tok("a.example.com.", 1, 1, 300, "x0a000001"),
        ];
        v.extend_from_slice(extra);
        format!("beginj {origin} {}", v.join(" "))
    };
    let small1 = tok("b.example.com.", 1, 1, 300, "x0a000002");
    let small2 = tok("c.example.com.", 1, 1, 300, "x0a000003");
    let mut out = vec![];
    let mut forms: Vec<(String, u16, usize)> = c12::LARGE_SIZES.iter().map(|s| ("b.example.com.".to_string(), c12::T_TXT, *s)).collect();
    forms.push(("b.example.com.".into(), c12::T_NULL, 513));
    forms.push(("b.example.com.".into(), c12::T_NULL, 4000));
    forms.push(("b.example.com.".into(), 65280, 513));
    forms.push(("b.example.com.".into(), 65280, 16000));
    forms.push((c12::LONG_OWNER.into(), c12::T_TXT, 513));
    forms.push((c12::LONG_OWNER.into(), c12::T_TXT, 300));
    for (owner, t, size) in forms {
        let rd = c12::large_rdata_tok(t, size);
        let big = tok(&owner, t, 1, 300, &rd);
        let del = tok(&owner, t, 254, 0, &rd);
        for pos in 0..3 {
            let mut rrs = vec![small1.clone(), small2.clone()];
            rrs.insert(pos, big.clone());
            out.push(vec![
                base(&[]),
                format!("upd P U {}", rrs.join(" ")),
                "cutall".into(),
                "restartb 0".into(),
                format!("upd P U {del} {small1}"),
                "cutall".into(),
                "end".into(),
            ]);
        }
        // … and in the initial zone (the dump), with an update around it
        out.push(vec![base(&[big.clone()]), format!("upd P U {small1} {del} {small2}"), "cutall".into(), "end".into()]);
    }
    out
}

fn tok(name: &str, t: u16, c: u16, ttl: u32, rd: &str) -> String {
    format!("{},{t},{c},{ttl},{rd}", name_tok(&Name::from_ascii(name).unwrap()))
}

const NS1: &str = "x036e7331076578616d706c6503636f6d00";

/// records a zone file / the API may hold besides the usual ones: every record type (DNSSEC types included) at a host,
/// at the apex and at a wildcard, DS at a delegation, names below the delegation
fn every_type_zone() -> Vec<String> {
    let mut v = vec![tok("example.com.", 6, 1, 3600, "s100.0"), tok("example.com.", 2, 1, 3600, NS1)];
    v.extend(c12::usable_types("a.example.com."));
    v.extend(c12::usable_types("example.com."));
    v.extend(c12::usable_types("*.w.example.com.").into_iter().take(6));
    v.push(tok("sub.example.com.", 2, 1, 300, "x026e7303737562076578616d706c6503636f6d00"));
    v.extend(c12::usable_types("sub.example.com.").into_iter().filter(|t| t.contains(",43,") || t.contains(",47,")));
    v.push(tok("ns.sub.example.com.", 1, 1, 300, "x0a000009"));
    v.push(tok("deep.x.sub.example.com.", 16, 1, 300, "x027478"));
    v
}

/// what the zone loader accepts and `pre_scan` would refuse in an UPDATE: out-of-zone owners (glue of an out-of-zone name
/// server, stray records, the parent), wildcards, names at / below a delegation
fn out_of_zone_zone() -> Vec<String> {
    vec![
        tok("example.com.", 6, 1, 3600, "s100.0"),
        tok("example.com.", 2, 1, 3600, "x026e73076578616d706c65036e657400"), // @ NS ns.example.net.
        tok("ns.example.net.", 1, 1, 300, "xc6336435"),                      // its glue
        tok("example.net.", 15, 1, 300, "x000a046d61696c076578616d706c65036e657400"),
        tok("other.org.", 16, 1, 300, "x027478"),
        tok("com.", 2, 1, 300, "x01610c67746c642d73657276657273036e657400"),
        tok("a.example.com.", 1, 1, 300, "x0a000001"),
        tok("*.example.com.", 1, 1, 300, "x0a000007"),
        tok("sub.example.com.", 2, 1, 300, "x026e7303737562076578616d706c6503636f6d00"),
        tok("*.sub.example.com.", 16, 1, 300, "x027478"),
        tok("ns.sub.example.com.", 1, 1, 300, "x0a000009"),
        tok("EXAMPLE.ORG.", 28, 1, 300, "x20010db8000000000000000000000005"),
    ]
}

/// Directed histories (both tiers): zones with every record type / with out-of-zone and delegated owners survive
/// start → update → stop → start; a row that cannot be written (first RR of an update) followed by acknowledged updates.
fn directed_zones() -> Vec<Vec<String>> {
    let origin = name_tok(&Name::from_ascii("example.com.").unwrap());
    let small = |l: &str, i: u8| tok(&format!("{l}.example.com."), 1, 1, 300, &format!("x0a0000{i:02x}"));
    let mut out = vec![];
    for which in 0..ZONE_FILES.len() {
        out.push(vec![
            format!("beginf {which}"),
            format!("upd P U {} {}", small("b", 2), tok("a.example.com.", 16, 255, 0, "-")),
            format!("updf P U {}", small("c", 3)),
            "cutall".into(),
            "restartb 0".into(),
            format!("upd P U {} {}", small("d", 4), tok("sub.example.com.", 255, 255, 0, "-")),
            "cutall".into(),
            "restartb 0".into(),
            "end".into(),
        ]);
    }
    for zone in [every_type_zone(), out_of_zone_zone()] {
        out.push(vec![
            format!("beginj {origin} {}", zone.join(" ")),
            format!("upd P U {} {}", small("b", 2), tok("a.example.com.", 43, 255, 0, "-")),
            format!("upd P U {}", tok("a.example.com.", 16, 254, 0, "x027478")),
            "cutall".into(),
            "restartb 0".into(),
            format!("upd P U {} {}", small("c", 3), tok("sub.example.com.", 255, 255, 0, "-")),
            "cutall".into(),
            "restartb 0".into(),
            "end".into(),
        ]);
    }
    // a failing journal row (an RR of 65 535 octets of RDATA, first of its update: SERVFAIL, no trace), then business as usual
    let huge = tok("b.example.com.", c12::T_TXT, 1, 300, &c12::large_rdata_tok(c12::T_TXT, 65535));
    let base = vec![tok("example.com.", 6, 1, 3600, "s100.0"), tok("example.com.", 2, 1, 3600, NS1), tok("a.example.com.", 1, 1, 300, "x0a000001")];
    out.push(vec![
        format!("beginj {origin} {}", base.join(" ")),
        format!("upd P U {}", small("b", 2)),
        format!("upd P U {huge} {}", small("c", 3)),
        format!("upd P U {}", small("d", 4)),
        format!("upd P U {} {}", small("e", 5), tok("b.example.com.", 1, 254, 0, "x0a000002")),
        "cutall".into(),
        "restartb 0".into(),
        format!("upd P U {huge}"),
        format!("upd P U {}", small("f", 6)),
        "cutall".into(),
        "restartb 0".into(),
        "end".into(),
    ]);
    out
}

fn gen_history(rng: &mut Rng) -> Vec<String> {
    let mut v = vec![gen_begin(rng)];
    for _ in 0..rng.range(1, 6) {
        v.push(gen_msg(rng));
    }
    v.push("cutall".into());
    if rng.chance(2, 3) {
        // stop at a message boundary, recover, go on, and stop again anywhere
        v.push(format!("restartb {}", if rng.chance(1, 2) { 0 } else { rng.below(4) }));
        for _ in 0..rng.range(1, 4) {
            v.push(gen_msg(rng));
        }
        v.push("cutall".into());
        if rng.chance(1, 3) {
            v.push("restartb 0".into());
            v.push(gen_msg(rng));
            v.push("cutall".into());
        }
    }
    // … and with a real restart (connection closed, file opened afresh), whatever came before
    v.push("restartb 0".into());
    v.push("end".into());
    v
}

pub fn run(o: &Opts, rec: &mut Recorder) {
    rec.rule = "a recovery (`cut`/`restart`) from a journal that holds at least one UPDATE message, or an update issued after a restart (distinct by case text + position)".into();
    let mut hist = Hist {
        rt: c12::rt(),
        dir: o.out.join("journals"),
        origin: Name::root(),
        initial: vec![],
        h: None,
        msgs: vec![],
        boundaries: vec![],
        live: PathBuf::new(),
        twin: None,
        restarts: 0,
        n_files: 0,
        hist_no: 0,
        no_model: false,
    };
    for l in &o.pre_lines {
        exec(l, &mut hist, rec);
    }
    rec.corpus_cases = rec.cases.len();
    c12::GIANTS.store(o.thorough(), std::sync::atomic::Ordering::Relaxed);
    if !o.replay_only {
        for h in directed_zones().into_iter().chain(directed_large()) {
            for l in h {
                exec(&l, &mut hist, rec);
            }
        }
    }
    let mut rng = Rng::new(o.seed);
    for _ in 0..o.n(150, 6000) {
        let mut r = rng.fork();
        for l in gen_history(&mut r) {
            exec(&l, &mut hist, rec);
        }
    }
    hist.h = None;
    hist.twin = None;
    let _ = std::fs::remove_dir_all(&hist.dir);
}
