//! C09 — NSEC3 denial of existence (`hickory_net::dnssec::nsec3::verify_nsec3` through the hook).
//!
//! Case line (see lean/HickoryVerif/Drv/C09.lean):
//!   v <qname> <qtype> <soa|-> <rcode> <wl|-> <soft> <hard> <n> {owner next optout iter salt types}*n <m> {name hash}*m
//! The hash table at the end is *recomputed* here with the real `Nsec3HashAlgorithm::hash` before the
//! case is recorded, so corpus lines may end in `0`.
//!
//! Oracle on the implementation (independent of the Lean model):
//!  * iteration clauses, parameter equality, zone membership;
//!  * semantic soundness: when the implementation says Secure, enumerate the zone views over a small
//!    name universe that are consistent with the given NSEC3 records under the real hash order
//!    (every record is a link of the hash ring; names hashing strictly inside a link do not exist —
//!    inside an opt-out link they may be insecure delegations); if some consistent view falsifies
//!    what the response claims, that is a failure;
//!  * completeness end to end: negative / wildcard responses of an NSEC3-signed `InMemoryZoneHandler`
//!    must be accepted.
use std::collections::{BTreeMap, BTreeSet};

use hickory_net::dnssec::verif_hooks::verify_nsec3;
use hickory_proto::dnssec::rdata::{DNSSECRData, NSEC3, RRSIG, SigInput};
use hickory_proto::dnssec::{Algorithm, Nsec3HashAlgorithm, Proof};
use hickory_proto::op::{Query, ResponseCode};
use hickory_proto::rr::rdata::A;
use hickory_proto::rr::{Name, RData, Record, RecordType, SerialNumber};

use crate::common::*;

pub const T_A: u16 = 1;
pub const T_NS: u16 = 2;
pub const T_CNAME: u16 = 5;
pub const T_SOA: u16 = 6;
pub const T_TXT: u16 = 16;
pub const T_DNAME: u16 = 39;
pub const T_DS: u16 = 43;
pub const T_RRSIG: u16 = 46;
pub const T_NSEC3PARAM: u16 = 51;


#[derive(Clone, Debug, PartialEq)]
pub struct RecIn {
    pub owner: Name,
    pub next: Vec<u8>,
    pub opt_out: bool,
    pub iterations: u16,
    pub salt: Vec<u8>,
    pub types: Vec<u16>,
}

#[derive(Clone, Debug)]
pub struct Case {
    pub q: Name,
    pub qtype: u16,
    pub soa: Option<Name>,
    pub rcode: u16,
    pub wl: Option<u8>,
    pub soft: u16,
    pub hard: u16,
    pub recs: Vec<RecIn>,
}

// ------------------------------------------------------------------ small helpers

pub fn nsec3_hash(salt: &[u8], name: &Name, iterations: u16) -> Vec<u8> {
    Nsec3HashAlgorithm::SHA1.hash(salt, name, iterations).unwrap().as_ref().to_vec()
}

/// base32hex, lower case, no padding — written here independently of `data_encoding`
pub fn b32(data: &[u8]) -> Vec<u8> {
    const AL: &[u8; 32] = b"0123456789abcdefghijklmnopqrstuv";
    let mut out = vec![];
    let (mut acc, mut bits) = (0u32, 0u32);
    for &b in data {
        acc = (acc << 8) | b as u32;
        bits += 8;
        while bits >= 5 {
            out.push(AL[((acc >> (bits - 5)) & 31) as usize]);
            bits -= 5;
        }
    }
    if bits > 0 {
        out.push(AL[((acc << (5 - bits)) & 31) as usize]);
    }
    out
}

fn lower(l: &[u8]) -> Vec<u8> {
    l.to_ascii_lowercase()
}

type Lbls = Vec<Vec<u8>>;

fn lbls(n: &Name) -> Lbls {
    n.iter().map(lower).collect()
}

fn name_of(l: &Lbls) -> Name {
    Name::from_labels(l.iter().map(|x| &x[..])).unwrap()
}

fn show_lbls(l: &Lbls) -> String {
    if l.is_empty() {
        return ".".into();
    }
    l.iter().map(|x| String::from_utf8_lossy(x).to_string()).collect::<Vec<_>>().join(".") + "."
}

fn types_tok(t: &[u16]) -> String {
    if t.is_empty() { "-".into() } else { t.iter().map(|x| x.to_string()).collect::<Vec<_>>().join(",") }
}

fn opt_tok<T: ToString>(x: &Option<T>) -> String {
    x.as_ref().map(|v| v.to_string()).unwrap_or_else(|| "-".into())
}

/// every name the model may hash: the ancestors-or-self of the query name and their wildcards
fn table_names(q: &Name) -> Vec<Name> {
    let mut out: Vec<Name> = vec![];
    let mut cur = q.to_lowercase();
    cur.set_fqdn(true);
    loop {
        if !out.contains(&cur) {
            out.push(cur.clone());
        }
        if let Ok(w) = cur.prepend_label("*") {
            if !out.contains(&w) {
                out.push(w);
            }
        }
        if cur.is_root() {
            break;
        }
        cur = cur.base_name();
    }
    out
}

pub fn format_case(c: &Case) -> String {
    let mut s = format!(
        "v {} {} {} {} {} {} {} {}",
        name_tok(&c.q),
        c.qtype,
        c.soa.as_ref().map(name_tok).unwrap_or_else(|| "-".into()),
        c.rcode,
        opt_tok(&c.wl),
        c.soft,
        c.hard,
        c.recs.len()
    );
    for r in &c.recs {
        s += &format!(
            " {} {} {} {} {} {}",
            name_tok(&r.owner),
            hex(&r.next),
            b(r.opt_out),
            r.iterations,
            hex(&r.salt),
            types_tok(&r.types)
        );
    }
    // the hash oracle (only when the code gets as far as hashing)
    let mut tbl = vec![];
    if let Some(f) = c.recs.first() {
        if f.iterations <= c.soft && f.iterations <= c.hard {
            for n in table_names(&c.q) {
                tbl.push((name_tok(&n), hex(&nsec3_hash(&f.salt, &n, f.iterations))));
            }
        }
    }
    s += &format!(" {}", tbl.len());
    for (n, h) in tbl {
        s += &format!(" {n} {h}");
    }
    s
}

pub fn parse_case(t: &[&str]) -> Option<Case> {
    if t.len() < 9 || t[0] != "v" {
        return None;
    }
    let q = parse_name(t[1])?;
    let qtype: u16 = t[2].parse().ok()?;
    let soa = if t[3] == "-" { None } else { Some(parse_name(t[3])?) };
    let rcode: u16 = t[4].parse().ok()?;
    let wl = if t[5] == "-" { None } else { Some(t[5].parse::<u8>().ok()?) };
    let soft: u16 = t[6].parse().ok()?;
    let hard: u16 = t[7].parse().ok()?;
    let n: usize = t[8].parse().ok()?;
    let mut recs = vec![];
    let mut i = 9;
    for _ in 0..n {
        if i + 6 > t.len() {
            return None;
        }
        let types = if t[i + 5] == "-" {
            vec![]
        } else {
            t[i + 5].split(',').map(|x| x.parse::<u16>().ok()).collect::<Option<Vec<_>>>()?
        };
        recs.push(RecIn {
            owner: parse_name(t[i])?,
            next: unhex(t[i + 1])?,
            opt_out: t[i + 2] == "1",
            iterations: t[i + 3].parse().ok()?,
            salt: unhex(t[i + 4])?,
            types,
        });
        i += 6;
    }
    Some(Case { q, qtype, soa, rcode, wl, soft, hard, recs })
}

fn proof_str(p: Proof) -> &'static str {
    match p {
        Proof::Secure => "secure",
        Proof::Insecure => "insecure",
        Proof::Bogus => "bogus",
        Proof::Indeterminate => "indeterminate",
    }
}

fn call_impl(c: &Case) -> Proof {
    let query = Query::new(c.q.clone(), RecordType::from(c.qtype));
    let datas: Vec<NSEC3> = c
        .recs
        .iter()
        .map(|r| {
            NSEC3::new(
                Nsec3HashAlgorithm::SHA1,
                r.opt_out,
                r.iterations,
                r.salt.clone(),
                r.next.clone(),
                r.types.iter().map(|t| RecordType::from(*t)),
            )
        })
        .collect();
    let pairs: Vec<(&Name, &NSEC3)> = c.recs.iter().map(|r| &r.owner).zip(datas.iter()).collect();
    let mut answers = vec![];
    if let Some(k) = c.wl {
        answers.push(Record::from_rdata(c.q.clone(), 300, RData::A(A::new(192, 0, 2, 1))));
        let input = SigInput {
            type_covered: RecordType::from(c.qtype),
            algorithm: Algorithm::ED25519,
            num_labels: k,
            original_ttl: 300,
            sig_expiration: SerialNumber::new(0),
            sig_inception: SerialNumber::new(0),
            key_tag: 0,
            signer_name: c.soa.clone().unwrap_or_else(Name::root),
        };
        answers.push(Record::from_rdata(
            c.q.clone(),
            300,
            RData::DNSSEC(DNSSECRData::RRSIG(RRSIG::from_sig(input, vec![]))),
        ));
    }
    let rc: ResponseCode = c.rcode.into();
    verify_nsec3(&query, c.soa.as_ref(), rc, &answers, &pairs, c.soft, c.hard)
}

// ------------------------------------------------------------------ semantic oracle

#[derive(Clone)]
struct Link {
    owner: Vec<u8>,
    next: Vec<u8>,
    opt_out: bool,
}

/// `h` lies strictly inside the link (owner, next) of the hash ring
fn inside(o: &[u8], n: &[u8], h: &[u8]) -> bool {
    if o < n { o < h && h < n } else { h > o || h < n }
}

type Zone = BTreeMap<Lbls, BTreeSet<u16>>;

fn is_deleg(t: &BTreeSet<u16>) -> bool {
    t.contains(&T_NS) && !t.contains(&T_SOA)
}
fn is_cut(t: &BTreeSet<u16>) -> bool {
    is_deleg(t) || t.contains(&T_DNAME)
}
fn insecure_deleg(t: &BTreeSet<u16>) -> bool {
    is_deleg(t) && !t.contains(&T_DS)
}

#[derive(Debug, PartialEq, Clone)]
enum Kind {
    Referral,
    Answer,
    NoData,
    WildAnswer(usize),
    WildNoData,
    NxDomain,
}

fn suffix(q: &Lbls, k: usize) -> Lbls {
    q[q.len() - k..].to_vec()
}

/// what an authoritative server for zone view `z` answers to (q, t) — RFC 1034 §4.3.2, 4592, 5155
fn kind(z: &Zone, apex: &Lbls, q: &Lbls, t: u16) -> Kind {
    for k in apex.len() + 1..q.len() {
        if let Some(ts) = z.get(&suffix(q, k)) {
            if is_cut(ts) {
                return Kind::Referral;
            }
        }
    }
    if let Some(ts) = z.get(q) {
        if q.len() > apex.len() && is_deleg(ts) && t != T_DS {
            return Kind::Referral;
        }
        if ts.contains(&t) || ts.contains(&T_CNAME) {
            return Kind::Answer;
        }
        return Kind::NoData;
    }
    let mut ce = apex.len();
    for k in (apex.len()..q.len()).rev() {
        if z.contains_key(&suffix(q, k)) {
            ce = k;
            break;
        }
    }
    let ce_name = suffix(q, ce);
    if ce > apex.len() && z.get(&ce_name).map(is_cut).unwrap_or(false) {
        return Kind::Referral;
    }
    let mut w = vec![b"*".to_vec()];
    w.extend(ce_name);
    match z.get(&w) {
        Some(ts) if ts.contains(&t) || ts.contains(&T_CNAME) => Kind::WildAnswer(ce),
        Some(_) => Kind::WildNoData,
        None => Kind::NxDomain,
    }
}

/// what the accepted response asserts about the zone
fn claim_holds(c: &Case, z: &Zone, apex: &Lbls, q: &Lbls) -> bool {
    if c.rcode == 3 {
        return kind(z, apex, q, c.qtype) == Kind::NxDomain;
    }
    match c.wl {
        None => {
            if c.qtype == T_DS {
                // RFC 5155 §8.6: all that is claimed is "no DS RRset at QNAME"
                !z.get(q).map(|t| t.contains(&T_DS)).unwrap_or(false)
            } else {
                matches!(kind(z, apex, q, c.qtype), Kind::NoData | Kind::WildNoData)
            }
        }
        Some(k) => {
            // RFC 5155 §8.8: QNAME and everything down to the next closer name do not exist.
            // (That the wildcard's parent is in the zone and not below a cut is carried by the RRSIG.)
            let k = k as usize;
            !(k + 1..=q.len()).any(|j| z.contains_key(&suffix(q, j)))
        }
    }
}

enum Sem {
    NoVerdict(&'static str),
    Holds(usize),
    Falsified(String, Zone),
}

fn universe(apex: &Lbls, q: &Lbls) -> Vec<Lbls> {
    let mut u: BTreeSet<Lbls> = BTreeSet::new();
    let alpha: [&[u8]; 3] = [b"a", b"b", b"*"];
    let mut layer: Vec<Lbls> = vec![apex.clone()];
    u.insert(apex.clone());
    for _ in 0..3 {
        let mut next = vec![];
        for n in &layer {
            for a in alpha {
                let mut m = vec![a.to_vec()];
                m.extend(n.clone());
                if m.iter().map(|l| l.len() + 1).sum::<usize>() < 250 {
                    u.insert(m.clone());
                    next.push(m);
                }
            }
        }
        layer = next;
    }
    // a few host-style names so that hand-written corpus cases have an owner in the universe
    for l in [&b"www"[..], b"mail", b"sub"] {
        let mut m = vec![l.to_vec()];
        m.extend(apex.clone());
        u.insert(m);
    }
    for k in apex.len()..=q.len() {
        let a = suffix(q, k);
        let mut w = vec![b"*".to_vec()];
        w.extend(a.clone());
        u.insert(a);
        if w.iter().map(|l| l.len() + 1).sum::<usize>() < 250 {
            u.insert(w);
        }
    }
    u.into_iter().collect()
}

fn consistent(z: &Zone, links: &[Link], hashes: &BTreeMap<Lbls, Vec<u8>>) -> bool {
    for (n, ts) in z {
        let h = &hashes[n];
        for l in links {
            if inside(&l.owner, &l.next, h) && !(l.opt_out && insecure_deleg(ts)) {
                return false;
            }
        }
    }
    true
}

fn describe(z: &Zone) -> String {
    z.iter().map(|(n, t)| format!("{}{{{}}}", show_lbls(n), types_tok(&t.iter().copied().collect::<Vec<_>>()))).collect::<Vec<_>>().join(" ")
}

fn semantic(c: &Case) -> Sem {
    let Some(first) = c.recs.first() else { return Sem::NoVerdict("no-records") };
    let apex_name = match &c.soa {
        Some(s) => s.clone(),
        None => first.owner.base_name(),
    };
    if !apex_name.is_fqdn() || !c.q.is_fqdn() || apex_name.is_root() {
        return Sem::NoVerdict("not-fqdn-or-root");
    }
    let apex = lbls(&apex_name);
    let q = lbls(&c.q);
    if q.len() < apex.len() || suffix(&q, apex.len()) != apex {
        return Sem::NoVerdict("query-outside-zone");
    }
    if q.len() - apex.len() > 4 {
        return Sem::NoVerdict("query-too-deep");
    }
    if let Some(k) = c.wl {
        // RRSIG labels ≥ QNAME labels: not a wildcard expansion, the response makes no NSEC3 claim the
        // property defines; labels < apex labels: not an RRSIG of this zone
        if c.rcode == 0 && (k >= c.q.num_labels() || (k as usize) < apex.len()) {
            return Sem::NoVerdict("answer-rrsig-not-a-wildcard-expansion");
        }
    }
    if c.recs.iter().any(|r| r.salt != first.salt || r.iterations != first.iterations) {
        return Sem::NoVerdict("parameter-mismatch");
    }
    if first.iterations > 50 {
        return Sem::NoVerdict("iterations-too-high-for-oracle");
    }
    let uni = universe(&apex, &q);
    let mut hashes: BTreeMap<Lbls, Vec<u8>> = BTreeMap::new();
    let mut by_label: BTreeMap<Vec<u8>, Lbls> = BTreeMap::new();
    for n in &uni {
        let h = nsec3_hash(&first.salt, &name_of(n), first.iterations);
        by_label.insert(b32(&h), n.clone());
        hashes.insert(n.clone(), h);
    }
    // forced names and links
    let mut forced: Zone = BTreeMap::new();
    let mut links = vec![];
    for r in &c.recs {
        let ol = lbls(&r.owner);
        if ol.len() != apex.len() + 1 || ol[1..] != apex[..] {
            return Sem::NoVerdict("record-outside-zone");
        }
        let Some(n) = by_label.get(&ol[0]) else { return Sem::NoVerdict("owner-not-a-universe-name") };
        let ts: BTreeSet<u16> = r.types.iter().copied().collect();
        if let Some(prev) = forced.get(n) {
            if *prev != ts {
                return Sem::NoVerdict("conflicting-records");
            }
        }
        forced.insert(n.clone(), ts);
        links.push(Link { owner: hashes[n].clone(), next: r.next.clone(), opt_out: r.opt_out });
    }
    // relevant free names: ancestors-or-self of q below the apex and the wildcards at q's ancestors
    let mut rel: Vec<Lbls> = vec![];
    for k in apex.len()..=q.len() {
        let a = suffix(&q, k);
        if k > apex.len() && !forced.contains_key(&a) && !rel.contains(&a) {
            rel.push(a.clone());
        }
        if k < q.len() {
            let mut w = vec![b"*".to_vec()];
            w.extend(a);
            if hashes.contains_key(&w) && !forced.contains_key(&w) && !rel.contains(&w) {
                rel.push(w);
            }
        }
    }
    let other = if c.qtype == T_A { T_TXT } else { T_A };
    // None = absent; Some(set) = present with these types (empty = empty non-terminal)
    let menu: Vec<Option<Vec<u16>>> = vec![
        None,
        Some(vec![c.qtype]),
        Some(vec![other]),
        Some(vec![T_NS]),
        Some(vec![T_NS, T_DS]),
        Some(vec![T_CNAME]),
        Some(vec![T_DNAME]),
        Some(vec![]),
    ];
    // per-name pruning: a free name strictly inside a link can only be absent (or an insecure delegation)
    let allowed: Vec<Vec<usize>> = rel
        .iter()
        .map(|n| {
            let h = &hashes[n];
            (0..menu.len())
                .filter(|&i| match &menu[i] {
                    None => true,
                    // RFC 4592 §4.2/§4.4: NS / DNAME at a wildcard name are not considered
                    Some(ts) if n[0] == b"*" && (ts.contains(&T_NS) || ts.contains(&T_DNAME)) => false,
                    Some(ts) => {
                        let ts: BTreeSet<u16> = ts.iter().copied().collect();
                        links.iter().all(|l| !inside(&l.owner, &l.next, h) || (l.opt_out && insecure_deleg(&ts)))
                    }
                })
                .collect()
        })
        .collect();
    let mut idx = vec![0usize; rel.len()];
    let mut n_consistent = 0usize;
    // the apex, when no record fixes its types: the usual apex types, with and without QTYPE
    let apex_default: BTreeSet<u16> = [T_SOA, T_NS, T_RRSIG, T_NSEC3PARAM].into_iter().collect();
    let mut apex_with_q = apex_default.clone();
    apex_with_q.insert(c.qtype);
    let apex_variants: Vec<BTreeSet<u16>> = if forced.contains_key(&apex) || c.qtype == T_DS || apex_default.contains(&c.qtype) {
        vec![apex_default.clone()]
    } else {
        vec![apex_default.clone(), apex_with_q]
    };
    let mut apex_i = 0usize;
    'outer: loop {
        // build the candidate zone view
        let mut z: Zone = forced.clone();
        z.entry(apex.clone()).or_insert_with(|| apex_variants[apex_i].clone());
        let mut absent: BTreeSet<&Lbls> = BTreeSet::new();
        let mut ents: Vec<&Lbls> = vec![];
        for (i, n) in rel.iter().enumerate() {
            match &menu[allowed[i][idx[i]]] {
                None => {
                    absent.insert(n);
                }
                Some(ts) => {
                    if ts.is_empty() {
                        ents.push(n);
                    }
                    z.insert(n.clone(), ts.iter().copied().collect());
                }
            }
        }
        let mut ok = true;
        // empty-non-terminal closure
        let names: Vec<Lbls> = z.keys().cloned().collect();
        for n in &names {
            let mut k = n.len();
            while k > apex.len() + 1 {
                k -= 1;
                let p = suffix(n, k);
                if absent.contains(&p) {
                    ok = false;
                    break;
                }
                z.entry(p).or_default();
            }
            if !ok {
                break;
            }
        }
        if ok {
            // a chosen empty non-terminal needs a descendant; nothing lives strictly below a cut
            for e in &ents {
                if !z.keys().any(|m| m.len() > e.len() && suffix(m, e.len()) == **e) {
                    ok = false;
                }
            }
            for (n, ts) in &z {
                if n.len() > apex.len() && is_cut(ts) && z.keys().any(|m| m.len() > n.len() && suffix(m, n.len()) == *n) {
                    ok = false;
                }
            }
        }
        if ok && consistent(&z, &links, &hashes) {
            n_consistent += 1;
            if !claim_holds(c, &z, &apex, &q) {
                return Sem::Falsified(describe(&z), z);
            }
        }
        // odometer
        let mut i = 0;
        loop {
            if i == rel.len() {
                apex_i += 1;
                if apex_i < apex_variants.len() {
                    break;
                }
                break 'outer;
            }
            idx[i] += 1;
            if idx[i] < allowed[i].len() {
                break;
            }
            idx[i] = 0;
            i += 1;
        }
    }
    if n_consistent == 0 { Sem::NoVerdict("no-consistent-zone-in-universe") } else { Sem::Holds(n_consistent) }
}

// ------------------------------------------------------------------ finding classes (from the input)
//
// A reference port of `verify_nsec3` with one switch per proposed repair (repo-patches/C09-*.diff);
// with all switches off it is the code as it is.  It is used ONLY to attribute an oracle failure to a
// finding class ("the first single repair that turns this Secure into something else") — never for
// the oracle's verdict.  The Lean model has the same switches (`Nsec3.Fixes`, `Nsec3.classOf`) and
// prints the same class token, so the two classifications are compared on every case.

#[derive(Clone, Copy, Default, Debug)]
pub struct Fixes {
    pub apex: bool,
    pub wrap: bool,
    pub optout: bool,
    pub deleg: bool,
    pub wild: bool,
}

/// the code as it is now: /repo e7e2ac8 (apex), cd83193 (wild), 6960cfe (deleg) applied;
/// the wrap-around comparison and the opt-out handling are unchanged (open findings)
pub const CURRENT: Fixes = Fixes { apex: true, wrap: false, optout: false, deleg: true, wild: true };

/// open finding classes: the repair (on top of `CURRENT`) that flips the verdict
pub const CLASSES: [(&str, Fixes); 2] = [
    ("wraparound-nsec3-covers-every-hash", Fixes { apex: true, wrap: true, optout: false, deleg: true, wild: true }),
    ("optout-next-closer-accepted-as-secure", Fixes { apex: true, wrap: false, optout: true, deleg: true, wild: true }),
];
const ALL_FIXED: Fixes = Fixes { apex: true, wrap: true, optout: true, deleg: true, wild: true };

fn lcmp(a: &[u8], b: &[u8]) -> std::cmp::Ordering {
    a.iter().map(|x| x.to_ascii_lowercase()).cmp(b.iter().map(|x| x.to_ascii_lowercase()))
}

struct RefCx<'a> {
    fx: Fixes,
    c: &'a Case,
    pairs: Vec<(Vec<u8>, &'a RecIn)>,
    salt: &'a [u8],
    iterations: u16,
}

#[derive(Clone)]
struct RInfo {
    name: Name,
    hash: Vec<u8>,
    label: Vec<u8>,
}

impl<'a> RefCx<'a> {
    fn info(&self, n: Name) -> RInfo {
        let hash = nsec3_hash(self.salt, &n, self.iterations);
        let label = b32(&hash);
        RInfo { name: n, hash, label }
    }
    fn find_matching(&self, label: &[u8]) -> Option<&(Vec<u8>, &'a RecIn)> {
        self.pairs.iter().find(|p| lcmp(&p.0, label).is_eq())
    }
    fn find_covering(&self, th: &[u8], tl: &[u8]) -> Option<&(Vec<u8>, &'a RecIn)> {
        self.pairs.iter().find(|p| {
            let nl = b32(&p.1.next);
            if nl.is_empty() || nl.len() > 63 {
                return false;
            }
            if lcmp(&p.0, tl).is_eq() {
                return false;
            }
            if lcmp(&p.0, &nl).is_lt() {
                lcmp(&p.0, tl).is_lt() && th < &p.1.next[..]
            } else if self.fx.wrap {
                lcmp(&p.0, tl).is_lt() || th < &p.1.next[..]
            } else {
                lcmp(&p.0, tl).is_gt() || th > &p.1.next[..]
            }
        })
    }
    fn candidates(&self) -> Vec<RInfo> {
        let Some(soa) = &self.c.soa else { return vec![] };
        if !soa.zone_of(&self.c.q) {
            return vec![];
        }
        let mut out = vec![];
        let mut cur = self.c.q.clone();
        loop {
            out.push(self.info(cur.clone()));
            if &cur == soa || cur.iter().next().is_none() {
                break;
            }
            cur = cur.base_name();
        }
        out
    }
    /// (closest encloser + its record, next closer cover)
    #[allow(clippy::type_complexity)]
    fn ce_proof(&self) -> (Option<(RInfo, &(Vec<u8>, &'a RecIn))>, Option<&(Vec<u8>, &'a RecIn)>) {
        let cands = self.candidates();
        let Some(m) = cands.iter().find_map(|c| self.find_matching(&c.label)) else { return (None, None) };
        let Some(i) = (1..cands.len()).find(|i| lcmp(&cands[*i].label, &m.0).is_eq()) else { return (None, None) };
        let nc = &cands[i - 1];
        (Some((cands[i].clone(), m)), self.find_covering(&nc.hash, &nc.label))
    }
    #[allow(clippy::type_complexity)]
    fn ce_proof_wild(&self, matching: bool) -> (Option<(RInfo, &(Vec<u8>, &'a RecIn))>, Option<&(Vec<u8>, &'a RecIn)>, Option<&(Vec<u8>, &'a RecIn)>) {
        let (ce, nc) = self.ce_proof();
        let Some((ci, _)) = &ce else { return (ce, nc, None) };
        let Ok(w) = ci.name.prepend_label("*") else { return (ce, nc, None) };
        let wi = self.info(w);
        let wr = if matching { self.find_matching(&wi.label) } else { self.find_covering(&wi.hash, &wi.label) };
        (ce, nc, wr)
    }
}

fn owner_label(r: &RecIn) -> Vec<u8> {
    r.owner.iter().next().map(lower).unwrap_or_default()
}

fn deleg_ns(r: &RecIn) -> bool {
    r.types.contains(&T_NS) && !r.types.contains(&T_SOA)
}
fn deleg_rec(r: &RecIn) -> bool {
    deleg_ns(r) || r.types.contains(&T_DNAME)
}

pub fn ref_verify(fx: Fixes, c: &Case) -> &'static str {
    let mut pairs = vec![];
    for r in &c.recs {
        let Some(l) = r.owner.iter().next() else { return "bogus" };
        if let Some(s) = &c.soa {
            if &r.owner.base_name() != s {
                return "bogus";
            }
        }
        pairs.push((l.to_vec(), r));
    }
    let Some(first) = c.recs.first() else { return "bogus" };
    if c.recs.iter().any(|r| r.salt != first.salt || r.iterations != first.iterations) {
        return "bogus";
    }
    if first.iterations > c.hard {
        return "bogus";
    }
    if first.iterations > c.soft {
        return "insecure";
    }
    let cx = RefCx { fx, c, pairs, salt: &first.salt, iterations: first.iterations };
    let qi = cx.info(c.q.clone());
    let parent_is_soa = c.soa.as_ref().map(|s| &c.q.base_name() == s).unwrap_or(false);
    match c.rcode {
        3 => {
            if cx.pairs.iter().any(|p| lcmp(&p.0, &qi.label).is_eq()) {
                return "bogus";
            }
            match cx.ce_proof_wild(false) {
                (Some((_, cr)), Some(ncr), Some(_)) => {
                    if fx.deleg && deleg_rec(cr.1) {
                        "bogus"
                    } else if fx.optout && ncr.1.opt_out {
                        "insecure"
                    } else {
                        "secure"
                    }
                }
                (None, Some(_), Some(_)) if parent_is_soa => "secure",
                _ => "bogus",
            }
        }
        0 => {
            let wild_exp = fx.wild && c.wl.map(|k| k < c.q.num_labels()).unwrap_or(false);
            if !wild_exp {
                if let Some(r) = cx.find_matching(&qi.label) {
                    return if r.1.types.contains(&c.qtype) || r.1.types.contains(&T_CNAME) {
                        "bogus"
                    } else if fx.deleg && c.qtype != T_DS && deleg_ns(r.1) {
                        "bogus"
                    } else {
                        "secure"
                    };
                }
                if c.qtype == T_DS && cx.find_covering(&qi.hash, &qi.label).map(|x| x.1.opt_out).unwrap_or(false) {
                    return "secure";
                }
            }
            match c.wl {
                Some(k) => {
                    if c.q.num_labels() <= k {
                        return "bogus";
                    }
                    let all: Vec<&[u8]> = c.q.iter().collect();
                    let take = (k as usize + 1).min(all.len());
                    let Ok(ncn) = Name::from_labels(all[all.len() - take..].iter().copied()) else { return "bogus" };
                    let ni = cx.info(ncn);
                    match cx.find_covering(&ni.hash, &ni.label) {
                        Some(ncr) => {
                            if fx.optout && ncr.1.opt_out { "insecure" } else { "secure" }
                        }
                        None => "bogus",
                    }
                }
                None => match cx.ce_proof_wild(true) {
                    (Some((_, cr)), Some(ncr), Some(w)) => {
                        if !w.1.types.contains(&c.qtype) && !w.1.types.contains(&T_CNAME) {
                            if fx.deleg && deleg_rec(cr.1) {
                                "bogus"
                            } else if fx.optout && ncr.1.opt_out {
                                "insecure"
                            } else {
                                "secure"
                            }
                        } else {
                            "bogus"
                        }
                    }
                    (None, Some(_), Some(_)) if parent_is_soa => "secure",
                    (None, None, None) if !fx.apex && c.soa.as_ref() == Some(&c.q) => "secure",
                    _ => "bogus",
                },
            }
        }
        _ => "bogus",
    }
}

/// class token of a case (mirrors `Nsec3.classOf`)
pub fn class_of(c: &Case) -> String {
    if ref_verify(CURRENT, c) != "secure" {
        return "-".into();
    }
    for (name, fx) in CLASSES {
        if ref_verify(fx, c) != "secure" {
            return name.into();
        }
    }
    // only both open repairs together flip it: attributed to the first
    if ref_verify(ALL_FIXED, c) != "secure" { CLASSES[0].0.into() } else { "-".into() }
}

// ------------------------------------------------------------------ exec

pub struct Outcome {
    pub proof: String,
    pub idx: Option<usize>,
}

/// Runs one case on the implementation, evaluates the oracle, records it (when `record` or when it is
/// interesting: Secure or an oracle failure).
pub fn run_case(c: &Case, rec: &mut Recorder, record: bool, tag: &str) -> Outcome {
    let r = catch(|| call_impl(c));
    let model_side = !c.recs.is_empty()
        && c.q.is_fqdn()
        && c.soa.as_ref().map(|s| s.is_fqdn() && !s.is_root()).unwrap_or(true)
        && c.recs.iter().all(|r| r.owner.is_fqdn());
    let mut fails: Vec<(String, String)> = vec![];
    let mut cls = "-".to_string();
    let proof = match &r {
        Ok(p) => proof_str(*p).to_string(),
        Err(_) => "panic".to_string(),
    };
    rec.stat(&format!("{tag}.verdict.{proof}"));
    if proof == "secure" && model_side {
        cls = class_of(c);
    }
    if let Ok(p) = &r {
        let p = *p;
        // iteration clauses (for every input)
        if c.recs.iter().any(|r| r.iterations > c.hard) && p != Proof::Bogus {
            fails.push((format!("iterations above the hard limit {} gave {proof}, not Bogus", c.hard), String::new()));
        }
        if c.recs.iter().any(|r| r.iterations > c.soft) && p == Proof::Secure {
            fails.push((format!("iterations above the soft limit {} gave Secure", c.soft), String::new()));
        }
        if p == Proof::Secure {
            if let Some(f) = c.recs.first() {
                if c.recs.iter().any(|r| r.salt != f.salt || r.iterations != f.iterations) {
                    fails.push(("Secure although the NSEC3 records do not share salt/iterations".into(), String::new()));
                }
            }
            if let Some(s) = &c.soa {
                if c.recs.iter().any(|r| r.owner.num_labels() == 0 || lbls(&r.owner.base_name()) != lbls(s)) {
                    fails.push(("Secure although an NSEC3 record is not directly under the SOA name".into(), String::new()));
                }
            }
            if c.rcode != 0 && c.rcode != 3 {
                fails.push((format!("Secure for response code {}", c.rcode), String::new()));
            }
            match semantic(c) {
                Sem::NoVerdict(why) => rec.stat(&format!("oracle.secure.no-verdict.{why}")),
                Sem::Holds(_) => rec.stat("oracle.secure.claim-holds-in-every-consistent-zone"),
                Sem::Falsified(desc, _) => {
                    // narrow class computed from the input: the first single repair that flips the verdict
                    let class: &str = if cls == "-" { "" } else { &cls };
                    rec.stat(&format!("oracle.secure.falsified.{}", if class.is_empty() { "unclassified" } else { class }));
                    fails.push((
                        format!(
                            "accepted as Secure, but a zone consistent with the given NSEC3 records falsifies the claim (q={} type={} rcode={} wl={}): zone = {}",
                            c.q, c.qtype, c.rcode, opt_tok(&c.wl), desc
                        ),
                        class.to_string(),
                    ));
                }
            }
        }
    } else if !c.recs.is_empty() {
        fails.push((format!("panic: {}", r.as_ref().err().unwrap()), String::new()));
    }
    // everything is evaluated; what is *recorded* (sent to the model, kept as replayable case): every
    // case the caller asks for, every unattributed failure, and the first 1500 failures of each class
    let mut interesting = false;
    for (_, class) in &fails {
        if class.is_empty() {
            interesting = true;
        } else {
            let k = format!("{tag}.failures-recorded.{class}");
            if rec.stats.get(&k).copied().unwrap_or(0) < 1500 {
                rec.stat(&k);
                interesting = true;
            } else {
                rec.stat(&format!("{tag}.failures-counted-not-recorded.{class}"));
            }
        }
    }
    if !(record || interesting) {
        rec.stat(&format!("{tag}.evaluated-not-recorded"));
        return Outcome { proof, idx: None };
    }
    let out = if c.recs.is_empty() {
        "panic".to_string()
    } else if !model_side {
        rec.impl_only += 1;
        "~".to_string()
    } else {
        format!("{proof} {cls}")
    };
    let idx = rec.case(format_case(c), out);
    rec.stat(&format!("{tag}.rcode.{}", c.rcode));
    rec.stat(&format!("{tag}.records.{}", c.recs.len().min(5)));
    rec.stat(&format!("{tag}.qtype.{}", c.qtype));
    rec.stat(&format!("{tag}.wl.{}", if c.wl.is_some() { "some" } else { "none" }));
    if c.soa.is_none() {
        rec.stat(&format!("{tag}.soa.none"));
    }
    if c.recs.iter().any(|r| r.opt_out) {
        rec.stat(&format!("{tag}.optout"));
    }
    // non-trivial: the code got past the sanity checks into one of the validators with ≥1 record
    if !c.recs.is_empty() && (c.rcode == 0 || c.rcode == 3) && c.recs.first().map(|f| f.iterations <= c.soft && f.iterations <= c.hard).unwrap_or(false) {
        rec.nontrivial(idx);
    }
    for (what, class) in fails {
        rec.fail(idx, what, &class);
    }
    Outcome { proof, idx: Some(idx) }
}

pub fn exec(line: &str, rec: &mut Recorder) {
    let t: Vec<&str> = line.split_whitespace().collect();
    match t.first() {
        Some(&"v") => match parse_case(&t) {
            Some(c) => {
                run_case(&c, rec, true, "corpus");
            }
            None => rec.stat("skipped.unparsable-case"),
        },
        Some(&"hl") => {
            if e2e::exec_hl(&t, rec).is_none() {
                rec.stat("skipped.unparsable-case");
            }
        }
        Some(&"srv") => {
            if e2e::exec_srv(&t, rec).is_none() {
                rec.stat("skipped.unparsable-case");
            }
        }
        Some(&"b32") if t.len() == 2 => {
            if let Some(x) = unhex(t[1]) {
                rec.case(line.to_string(), hex(&b32(&x)));
            }
        }
        _ => rec.stat("skipped.unparsable-case"),
    }
}

// ------------------------------------------------------------------ zones and chains built by the harness

#[derive(Clone, Debug)]
pub struct ZoneSpec {
    pub apex: Name,
    /// existing names (apex included) with their types; empty non-terminals are added by `chain`
    pub names: BTreeMap<Lbls, BTreeSet<u16>>,
    pub salt: Vec<u8>,
    pub iterations: u16,
    pub opt_out: bool,
}

/// RFC 5155 §7.1 chain of the zone (names below a cut excluded, opt-out: insecure delegations dropped),
/// as `RecIn`s in hash order.
pub fn chain(z: &ZoneSpec) -> Vec<RecIn> {
    let apex = lbls(&z.apex);
    let mut names: BTreeMap<Lbls, BTreeSet<u16>> = BTreeMap::new();
    for (n, ts) in &z.names {
        // occluded by a cut above?
        let occluded = (apex.len() + 1..n.len()).any(|k| z.names.get(&suffix(n, k)).map(is_cut).unwrap_or(false));
        if occluded {
            continue;
        }
        if z.opt_out && n.len() > apex.len() && insecure_deleg(ts) {
            continue;
        }
        let mut ts = ts.clone();
        if !(n.len() > apex.len() && is_deleg(&ts) && !ts.contains(&T_DS)) && !ts.is_empty() {
            ts.insert(T_RRSIG);
        }
        names.insert(n.clone(), ts);
    }
    let keys: Vec<Lbls> = names.keys().cloned().collect();
    for n in keys {
        let mut k = n.len();
        while k > apex.len() + 1 {
            k -= 1;
            names.entry(suffix(&n, k)).or_default();
        }
    }
    let mut hashed: Vec<(Vec<u8>, BTreeSet<u16>)> =
        names.into_iter().map(|(n, ts)| (nsec3_hash(&z.salt, &name_of(&n), z.iterations), ts)).collect();
    hashed.sort();
    let n = hashed.len();
    (0..n)
        .map(|i| RecIn {
            owner: z.apex.prepend_label(&b32(&hashed[i].0)[..]).unwrap(),
            next: hashed[(i + 1) % n].0.clone(),
            opt_out: z.opt_out,
            iterations: z.iterations,
            salt: z.salt.clone(),
            types: hashed[i].1.iter().copied().collect(),
        })
        .collect()
}

fn apex_types() -> BTreeSet<u16> {
    [T_SOA, T_NS, T_NSEC3PARAM].into_iter().collect()
}

fn rel_name(apex: &Name, labels: &[&[u8]]) -> Lbls {
    let mut l: Lbls = labels.iter().map(|x| x.to_vec()).collect();
    l.extend(lbls(apex));
    l
}

const ALPHA: [&[u8]; 3] = [b"a", b"b", b"*"];

fn all_rel(depth: usize) -> Vec<Vec<&'static [u8]>> {
    let mut out: Vec<Vec<&'static [u8]>> = vec![];
    let mut layer: Vec<Vec<&'static [u8]>> = vec![vec![]];
    for _ in 0..depth {
        let mut next = vec![];
        for n in &layer {
            for a in ALPHA {
                let mut m = vec![a];
                m.extend(n.iter().copied());
                out.push(m.clone());
                next.push(m);
            }
        }
        layer = next;
    }
    out
}

fn gen_zone(r: &mut Rng) -> ZoneSpec {
    let apex = Name::from_ascii(*r.pick(&["z.", "example.", "a.b."])).unwrap();
    let mut names: BTreeMap<Lbls, BTreeSet<u16>> = BTreeMap::new();
    names.insert(lbls(&apex), apex_types());
    let pool = all_rel(3);
    let k = r.range(0, 4);
    for _ in 0..k {
        let depth_bias = r.below(10);
        let cand: Vec<&Vec<&[u8]>> = pool.iter().filter(|n| if depth_bias < 5 { n.len() == 1 } else if depth_bias < 8 { n.len() == 2 } else { n.len() == 3 }).collect();
        let n = (*r.pick(&cand)).clone();
        let ts: Vec<u16> = match r.below(10) {
            0 | 1 => vec![T_NS],
            2 => vec![T_NS, T_DS],
            3 => vec![T_CNAME],
            4 => vec![T_DNAME],
            5 => vec![T_A, T_TXT],
            6 => vec![T_TXT],
            _ => vec![T_A],
        };
        names.insert(rel_name(&apex, &n), ts.into_iter().collect());
    }
    let salt = match r.below(4) {
        0 => vec![],
        1 => vec![0xaa, 0xbb, 0xcc, 0xdd],
        2 => vec![r.byte()],
        _ => r.bytes(2),
    };
    ZoneSpec { apex, names, salt, iterations: *r.pick(&[0u16, 0, 1, 2, 3, 5]), opt_out: r.chance(1, 3) }
}

/// the records of `chain` that match or cover the hash of one of the names the validator looks at
fn relevant(chain: &[RecIn], z: &ZoneSpec, q: &Name) -> Vec<usize> {
    let mut out = vec![];
    for n in table_names(q) {
        let h = nsec3_hash(&z.salt, &n, z.iterations);
        let l = b32(&h);
        for (i, r) in chain.iter().enumerate() {
            let o = owner_label(r);
            let oh = &chain[(i + chain.len() - 1) % chain.len()].next; // owner hash = previous next
            if (o == l || inside(oh, &r.next, &h)) && !out.contains(&i) {
                out.push(i);
            }
        }
    }
    out
}

fn gen_query(r: &mut Rng, z: &ZoneSpec) -> Name {
    let pool = all_rel(3);
    if r.chance(1, 12) {
        return z.apex.clone();
    }
    if r.chance(1, 3) && z.names.len() > 1 {
        // an existing name, a child of one, or a sibling
        let keys: Vec<&Lbls> = z.names.keys().collect();
        let mut n = (*r.pick(&keys)).clone();
        match r.below(3) {
            0 => {}
            1 => n.insert(0, r.pick(&ALPHA).to_vec()),
            _ => {
                if n.len() > lbls(&z.apex).len() {
                    n[0] = r.pick(&ALPHA).to_vec();
                }
            }
        }
        return name_of(&n);
    }
    let n: &Vec<&[u8]> = r.pick(&pool);
    name_of(&rel_name(&z.apex, n))
}

fn mutate(r: &mut Rng, c: &mut Case) {
    if c.recs.is_empty() {
        return;
    }
    let i = r.below(c.recs.len() as u64) as usize;
    match r.below(14) {
        0 => {
            // letter case of the owner label
            let mut l: Lbls = c.recs[i].owner.iter().map(|x| x.to_vec()).collect();
            let j = r.below(l[0].len() as u64) as usize;
            l[0][j] = l[0][j].to_ascii_uppercase();
            c.recs[i].owner = name_of(&l);
        }
        1 => {
            if let Some(b) = c.recs[i].next.last_mut() {
                *b = b.wrapping_add(1);
            }
        }
        2 => {
            c.recs[i].next.pop();
        }
        3 => c.recs[i].next.push(r.byte()),
        4 => c.recs[i].next = if r.chance(1, 2) { vec![] } else { r.bytes(40) },
        5 => c.recs[i].opt_out = !c.recs[i].opt_out,
        6 => c.recs[i].iterations = c.recs[i].iterations.wrapping_add(1),
        7 => c.recs[i].salt.push(1),
        8 => {
            // owner re-based: unrelated zone, child / grandchild / parent / sibling of the zone, root, other case
            let l: Vec<u8> = c.recs[i].owner.iter().next().unwrap().to_vec();
            let zone = c.recs[i].owner.base_name();
            let base = match r.below(7) {
                0 => Name::from_ascii("other.").unwrap(),
                1 => zone.prepend_label("sub").unwrap_or(zone.clone()),
                2 => zone.prepend_label("sub").and_then(|n| n.prepend_label("a")).unwrap_or(zone.clone()),
                3 => zone.base_name(),
                4 => zone.base_name().prepend_label("sibling").unwrap_or(zone.clone()),
                5 => Name::root(),
                _ => Name::from_labels(zone.iter().map(|x| x.to_ascii_uppercase())).unwrap_or(zone.clone()),
            };
            let all = r.chance(1, 2);
            for j in 0..c.recs.len() {
                if all || j == i {
                    let lj: Vec<u8> = if j == i { l.clone() } else { c.recs[j].owner.iter().next().unwrap().to_vec() };
                    if let Ok(o) = base.prepend_label(&lj[..]) {
                        c.recs[j].owner = o;
                    }
                }
            }
        }
        9 => c.soa = None,
        10 => c.soa = Some(Name::from_ascii(*r.pick(&["other.", "z.", "a.z.", "example."])).unwrap()),
        11 => {
            if c.recs.len() > 1 {
                let j = r.below(c.recs.len() as u64) as usize;
                let t = c.recs[i].next.clone();
                c.recs[i].next = c.recs[j].next.clone();
                c.recs[j].next = t;
            }
        }
        12 => {
            // owner label := hash label of a name related to the query (a forged link)
            let f = c.recs[0].clone();
            let names = table_names(&c.q);
            let n = r.pick(&names);
            let base = c.recs[i].owner.base_name();
            c.recs[i].owner = base.prepend_label(&b32(&nsec3_hash(&f.salt, n, f.iterations))[..]).unwrap();
        }
        _ => {
            let t = *r.pick(&[T_A, T_NS, T_SOA, T_CNAME, T_DS, T_DNAME, T_TXT]);
            if let Some(p) = c.recs[i].types.iter().position(|x| *x == t) {
                c.recs[i].types.remove(p);
            } else {
                c.recs[i].types.push(t);
                c.recs[i].types.sort();
            }
        }
    }
}

fn gen_case(r: &mut Rng) -> Case {
    let z = gen_zone(r);
    let ch = chain(&z);
    let q = gen_query(r, &z);
    let rel = relevant(&ch, &z, &q);
    let mut pick: Vec<usize> = vec![];
    match r.below(10) {
        0 | 1 | 2 | 3 => pick = rel.clone(),
        4 | 5 => {
            pick = rel.clone();
            if !pick.is_empty() {
                let i = r.below(pick.len() as u64) as usize;
                pick.remove(i);
            }
        }
        6 => {
            pick = rel.clone();
            pick.push(r.below(ch.len() as u64) as usize);
        }
        _ => {
            for i in 0..ch.len() {
                if r.chance(1, 2) {
                    pick.push(i);
                }
            }
        }
    }
    pick.dedup();
    if pick.is_empty() {
        pick.push(r.below(ch.len() as u64) as usize);
    }
    if r.chance(1, 3) {
        // order is visible to `find`
        let k = r.below(pick.len() as u64) as usize;
        pick.rotate_left(k);
    }
    let recs: Vec<RecIn> = pick.iter().map(|i| ch[*i].clone()).collect();
    let (soft, hard) = *r.pick(&[(100u16, 500u16), (100, 500), (100, 500), (0, 0), (1, 2), (2, 4), (0, 65535), (5, 3), (3, 3)]);
    let mut c = Case {
        q,
        qtype: *r.pick(&[T_A, T_A, T_DS, T_DS, T_TXT, T_NS, T_CNAME]),
        soa: Some(z.apex.clone()),
        rcode: *r.pick(&[0u16, 0, 0, 3, 3, 3, 2]),
        wl: if r.chance(1, 5) { Some(r.range(0, 4) as u8) } else { None },
        soft,
        hard,
        recs,
    };
    if c.wl.is_some() && r.chance(1, 2) {
        c.soa = None;
        c.rcode = 0;
    }
    if r.chance(1, 150) {
        // a query name so long that `*.<closest encloser>` no longer fits into 255 octets
        // (`prepend_label("*")` fails in closest_encloser_proof_with_wildcard)
        let mut n = z.apex.clone();
        let big = vec![b'x'; 63];
        while let Ok(m) = n.prepend_label(&big[..]) {
            n = m;
        }
        let rest = 255usize.saturating_sub(n.iter().map(|l| l.len() + 1).sum::<usize>() + 1);
        if rest >= 2 {
            if let Ok(m) = n.prepend_label(&vec![b'y'; rest - 1][..]) {
                n = m;
            }
        }
        c.q = n;
        if r.chance(1, 2) {
            // make the apex record match so that the closest encloser search succeeds somewhere
            c.recs = ch.clone();
        }
    }
    if r.chance(1, 4) {
        mutate(r, &mut c);
        if r.chance(1, 4) {
            mutate(r, &mut c);
        }
    }
    if r.chance(1, 40) {
        let it = *r.pick(&[101u16, 500, 501, 65535]);
        for x in c.recs.iter_mut() {
            x.iterations = it;
        }
    }
    c
}

// ------------------------------------------------------------------ exhaustive small-scope enumeration

/// All zones with ≤ `max_owners` owner names drawn from `pool` (types from a small menu) × opt-out ×
/// every query of the universe × qtype × response shape × every non-empty subset (≤ 3) of the chain.
fn enumerate(o: &Opts, rec: &mut Recorder) {
    let thorough = o.thorough();
    let apex = Name::from_ascii("z.").unwrap();
    let pool: Vec<Vec<&[u8]>> = all_rel(2).into_iter().chain([vec![&b"a"[..], b"a", b"a"], vec![b"*", b"b", b"a"], vec![b"b", b"*", b"a"]]).collect();
    let menus: Vec<Vec<u16>> = vec![vec![T_A], vec![T_NS], vec![T_NS, T_DS], vec![T_CNAME]];
    let queries: Vec<Name> = std::iter::once(apex.clone()).chain(all_rel(3).iter().map(|n| name_of(&rel_name(&apex, n)))).collect();
    // zones: owner sets of size 0..=2
    let mut zones: Vec<BTreeMap<Lbls, BTreeSet<u16>>> = vec![];
    let base: BTreeMap<Lbls, BTreeSet<u16>> = [(lbls(&apex), apex_types())].into_iter().collect();
    zones.push(base.clone());
    for (i, a) in pool.iter().enumerate() {
        for ma in &menus {
            let mut z1 = base.clone();
            z1.insert(rel_name(&apex, a), ma.iter().copied().collect());
            zones.push(z1.clone());
            for b_ in pool.iter().skip(i + 1) {
                // second owner always plain data: keeps the count at pool² · |menu|
                let mut z2 = z1.clone();
                z2.insert(rel_name(&apex, b_), [T_A].into_iter().collect());
                zones.push(z2);
            }
        }
    }
    let shapes: Vec<(u16, Option<u8>)> = vec![(0, None), (3, None), (0, Some(1)), (0, Some(2))];
    let qtypes = [T_A, T_DS];
    let params: Vec<(Vec<u8>, u16)> = vec![(vec![], 0), (vec![0xab], 1)];
    let mut counter: u64 = 0;
    let stride_z = if thorough { 2 } else { 37 };
    let record_every: u64 = if thorough { 11 } else { 3 };
    for (zi, names) in zones.iter().enumerate() {
        if zi % stride_z != (o.seed as usize) % stride_z {
            continue;
        }
        for opt_out in [false, true] {
            let (salt, iterations) = params[(zi + opt_out as usize) % params.len()].clone();
            let z = ZoneSpec { apex: apex.clone(), names: names.clone(), salt, iterations, opt_out };
            let ch = chain(&z);
            let n = ch.len();
            // subsets of size 1..=3
            let mut subsets: Vec<Vec<usize>> = vec![];
            for a in 0..n {
                subsets.push(vec![a]);
                for b_ in a + 1..n {
                    subsets.push(vec![a, b_]);
                    for c_ in b_ + 1..n {
                        subsets.push(vec![a, b_, c_]);
                    }
                }
            }
            for q in &queries {
                for qtype in qtypes {
                    for (rcode, wl) in &shapes {
                        for s in &subsets {
                            counter += 1;
                            let c = Case {
                                q: q.clone(),
                                qtype,
                                soa: if wl.is_some() { None } else { Some(apex.clone()) },
                                rcode: *rcode,
                                wl: *wl,
                                soft: 100,
                                hard: 500,
                                recs: s.iter().map(|i| ch[*i].clone()).collect(),
                            };
                            run_case(&c, rec, counter % record_every == 0, "enum");
                        }
                    }
                }
            }
        }
    }
    rec.stat_n("enum.cases-evaluated-on-implementation", counter);
}

// ------------------------------------------------------------------ directed families with expectations by construction
//
// The generator knows the zone, so it knows which record of the response matches / really covers which
// name.  It builds the RFC 5155 proof for each proof kind and then varies ONE aspect; the expected
// verdict follows from the construction (independent of the model and of the reference port):
//   * `limits`   iteration counts at every boundary of (soft, hard), incl. hard < soft, hard = soft, 0;
//   * `optmix`   every assignment of Opt-Out flags to the records × every order of the records;
//   * `ownerbase` the owner of one / every record re-based to <hash>.<base>, base ∈ {zone, zone in other
//                letter case, child, grandchild, parent, sibling, root}.
// A mismatch is an oracle failure with the concrete input; it is attributed to an open finding class only
// if the reference port of the code as it is reproduces the implementation's verdict AND the port with that
// finding's repair gives the expected one.

#[derive(Clone, Copy, Debug, PartialEq)]
enum PK {
    Match,
    DsOptOut,
    NxDomain,
    WildAnswer,
    WildNoData,
}

struct Built {
    kind: PK,
    case: Case,
    /// index (into case.recs) of the record whose Opt-Out flag decides: the record covering QNAME
    /// (DsOptOut) or the next closer name (NxDomain / WildAnswer / WildNoData)
    decisive: Option<usize>,
}

/// the chain with the owner hash of every record
fn chain_h(z: &ZoneSpec) -> Vec<(Vec<u8>, RecIn)> {
    let ch = chain(z);
    let n = ch.len();
    (0..n).map(|i| (ch[(i + n - 1) % n].next.clone(), ch[i].clone())).collect()
}

fn directed_zone(apex: &str, salt: Vec<u8>, iterations: u16) -> ZoneSpec {
    let apex = Name::from_ascii(apex).unwrap();
    let mut names: BTreeMap<Lbls, BTreeSet<u16>> = BTreeMap::new();
    names.insert(lbls(&apex), apex_types());
    names.insert(rel_name(&apex, &[b"a"]), [T_A].into_iter().collect());
    names.insert(rel_name(&apex, &[b"b"]), [T_A, T_TXT].into_iter().collect());
    names.insert(rel_name(&apex, &[b"*", b"b"]), [T_A].into_iter().collect());
    names.insert(rel_name(&apex, &[b"d"]), [T_NS].into_iter().collect()); // insecure delegation: not in an opt-out chain
    names.insert(rel_name(&apex, &[b"c", b"c"]), [T_A].into_iter().collect()); // c.<apex> is an empty non-terminal
    ZoneSpec { apex, names, salt, iterations, opt_out: true }
}

/// the RFC 5155 §7.2 proofs of the zone for one query of each kind, from the true matches / covers
fn build_proofs(z: &ZoneSpec) -> Vec<Built> {
    let ch = chain_h(z);
    let h = |n: &Name| nsec3_hash(&z.salt, n, z.iterations);
    let find_match = |n: &Name| ch.iter().position(|(oh, _)| *oh == h(n));
    let find_cover = |n: &Name| ch.iter().position(|(oh, r)| inside(oh, &r.next, &h(n)));
    let name = |ls: &[&[u8]]| name_of(&rel_name(&z.apex, ls));
    let star = |n: &Name| n.prepend_label("*").unwrap();
    let mut out = vec![];
    let mut push = |kind: PK, q: Name, qtype: u16, rcode: u16, wl: Option<u8>, idxs: Vec<Option<usize>>, decisive_pos: Option<usize>| {
        if idxs.iter().any(|x| x.is_none()) {
            return;
        }
        let idxs: Vec<usize> = idxs.into_iter().flatten().collect();
        let decisive_chain = decisive_pos.map(|p| idxs[p]);
        let mut uniq: Vec<usize> = vec![];
        for i in &idxs {
            if !uniq.contains(i) {
                uniq.push(*i);
            }
        }
        let case = Case { q, qtype, soa: Some(z.apex.clone()), rcode, wl, soft: 100, hard: 500, recs: uniq.iter().map(|i| ch[*i].1.clone()).collect() };
        out.push(Built { kind, case, decisive: decisive_chain.map(|d| uniq.iter().position(|u| *u == d).unwrap()) });
    };
    // matching NODATA: a.<apex> TXT (plus the apex record as a bystander)
    push(PK::Match, name(&[b"a"]), T_TXT, 0, None, vec![find_match(&name(&[b"a"])), find_match(&z.apex)], None);
    // Opt-Out DS: d.<apex> DS — closest encloser = apex, QNAME (= next closer) covered
    push(PK::DsOptOut, name(&[b"d"]), T_DS, 0, None, vec![find_match(&z.apex), find_cover(&name(&[b"d"]))], Some(1));
    // name error below the apex and below a.<apex>
    push(PK::NxDomain, name(&[b"x"]), T_A, 3, None, vec![find_match(&z.apex), find_cover(&name(&[b"x"])), find_cover(&star(&z.apex))], Some(1));
    push(PK::NxDomain, name(&[b"x", b"a"]), T_A, 3, None, vec![find_match(&name(&[b"a"])), find_cover(&name(&[b"x", b"a"])), find_cover(&star(&name(&[b"a"])))], Some(1));
    // wildcard answer x.b.<apex> A from *.b.<apex> (RRSIG labels = labels of b.<apex>), with the record of b as a bystander
    let bl = name(&[b"b"]).num_labels();
    push(PK::WildAnswer, name(&[b"x", b"b"]), T_A, 0, Some(bl), vec![find_cover(&name(&[b"x", b"b"])), find_match(&name(&[b"b"]))], Some(0));
    // wildcard NODATA x.b.<apex> TXT
    push(PK::WildNoData, name(&[b"x", b"b"]), T_TXT, 0, None, vec![find_match(&name(&[b"b"])), find_cover(&name(&[b"x", b"b"])), find_match(&star(&name(&[b"b"])))], Some(1));
    out
}

fn add1(h: &[u8]) -> Vec<u8> {
    let mut v = h.to_vec();
    for b in v.iter_mut().rev() {
        if *b == 255 {
            *b = 0;
        } else {
            *b += 1;
            break;
        }
    }
    v
}

fn sub1(h: &[u8]) -> Vec<u8> {
    let mut v = h.to_vec();
    for b in v.iter_mut().rev() {
        if *b == 0 {
            *b = 255;
        } else {
            *b -= 1;
            break;
        }
    }
    v
}

/// Boundary family: targets whose hash EQUALS the owner hash / the Next field of a record, and synthetic links
/// whose owner / next are the target hash ± 1 in the last octet.  Expectation by construction: a link covers a
/// hash only if it lies STRICTLY inside (equal to Next ⇒ that name exists; equal to the owner ⇒ matched).
fn boundary(rec: &mut Recorder, z: &ZoneSpec) {
    let ch = chain_h(z);
    let h = |n: &Name| nsec3_hash(&z.salt, n, z.iterations);
    let apex_l = lbls(&z.apex);
    // names of the chain by hash
    let mut by_hash: BTreeMap<Vec<u8>, Name> = BTreeMap::new();
    for n in z.names.keys() {
        for k in apex_l.len()..=n.len() {
            let nm = name_of(&suffix(n, k));
            by_hash.insert(h(&nm), nm);
        }
    }
    let find_match = |n: &Name| ch.iter().position(|(oh, _)| *oh == h(n));
    let find_cover = |n: &Name| ch.iter().position(|(oh, r)| inside(oh, &r.next, &h(n)));
    let mk = |q: &Name, qtype: u16, rcode: u16, wl: Option<u8>, recs: Vec<RecIn>| Case { q: q.clone(), qtype, soa: Some(z.apex.clone()), rcode, wl, soft: 100, hard: 500, recs };
    let clear = |mut r: RecIn, oo: bool| {
        r.opt_out = oo;
        r
    };
    // ---- (a)/(b): real names whose hash equals an owner hash or a Next field (every record, incl. the last one)
    for (i, (_, p)) in ch.iter().enumerate() {
        let Some(t) = by_hash.get(&p.next).cloned() else { continue };
        if t == z.apex || t.num_labels() == 0 {
            continue; // the apex is never a next closer name
        }
        let parent = t.base_name();
        let last = i + 1 == ch.len();
        let tag = if last { "boundary.next-eq-last-record" } else { "boundary.next-eq" };
        let why = format!("the hash of {t} EQUALS the Next Hashed Owner Name of the {} record given as its cover: that name exists, it is not covered", if last { "last (wrap-around)" } else { "preceding" });
        // name error for T (T's own record withheld)
        if let (Some(ce), Some(wc)) = (find_match(&parent), find_cover(&parent.prepend_label("*").unwrap())) {
            let mut recs = vec![clear(ch[ce].1.clone(), false), clear(p.clone(), false)];
            if wc != ce && wc != i {
                recs.push(clear(ch[wc].1.clone(), false));
            }
            run_expect(&mk(&t, T_A, 3, None, recs), rec, tag, Some(false), None, &why);
        }
        // Opt-Out DS for T with the preceding record as Opt-Out "cover"
        run_expect(&mk(&t, T_DS, 0, None, vec![clear(p.clone(), true)]), rec, tag, Some(false), None, &why);
        // wildcard answer with T as next closer name
        run_expect(&mk(&t, T_A, 0, Some(parent.num_labels()), vec![clear(p.clone(), false)]), rec, tag, Some(false), None, &why);
        // (a) the record OWNED by T offered as cover of T: matched, not covered
        if let Some(own) = find_match(&t) {
            let o = clear(ch[own].1.clone(), true);
            run_expect(&mk(&t, T_A, 0, Some(parent.num_labels()), vec![o.clone()]), rec, "boundary.owner-eq", Some(false), None, &format!("the hash of {t} EQUALS the owner hash of the record offered as its cover: a matching record covers nothing"));
            if let Some(ce) = find_match(&parent) {
                run_expect(&mk(&t, T_A, 3, None, vec![clear(ch[ce].1.clone(), false), o.clone()]), rec, "boundary.owner-eq", Some(false), None, &format!("name error for {t} although the record matching it is present"));
            }
        }
    }
    // ---- (c): synthetic links around the hash of a name that does not exist, owner / next = hash, hash ± 1, ± 2
    let x = name_of(&rel_name(&z.apex, &[b"x", b"b"])); // next closer of x.b.<apex> below the existing b.<apex>
    let hx = h(&x);
    let (m1, m2, m3, p1, p2, p3) = (sub1(&hx), sub1(&sub1(&hx)), sub1(&sub1(&sub1(&hx))), add1(&hx), add1(&add1(&hx)), add1(&add1(&add1(&hx))));
    let links: Vec<(Vec<u8>, Vec<u8>)> = vec![
        (m1.clone(), p1.clone()),
        (m2.clone(), p2.clone()),
        (hx.clone(), p1.clone()),
        (m1.clone(), hx.clone()),
        (p1.clone(), p2.clone()),
        (m2.clone(), m1.clone()),
        (m1.clone(), m3.clone()), // wrap-around link that really covers (hash above the owner)
        (p3.clone(), p1.clone()), // wrap-around link that really covers (hash below next)
        (p1.clone(), m1.clone()), // wrap-around link that does not cover
        (p3.clone(), hx.clone()), // wrap-around link whose next equals the hash
        (hx.clone(), m3.clone()), // wrap-around link owned by the hash
    ];
    let b_name = name_of(&rel_name(&z.apex, &[b"b"]));
    let wlb = b_name.num_labels();
    for (o, n) in links {
        let covered = o != hx && inside(&o, &n, &hx);
        let s = RecIn { owner: z.apex.prepend_label(&b32(&o)[..]).unwrap(), next: n.clone(), opt_out: false, iterations: z.iterations, salt: z.salt.clone(), types: vec![T_A, T_RRSIG] };
        let why = format!("synthetic link {} -> {} around H({x}) = {}: the hash lies {} it", hex(&o), hex(&n), hex(&hx), if covered { "strictly inside" } else { "NOT strictly inside" });
        // wildcard answer: the next closer cover alone decides
        run_expect(&mk(&x, T_A, 0, Some(wlb), vec![s.clone()]), rec, "boundary.plusminus", Some(covered), None, &why);
        // Opt-Out DS for x.b.<apex>: a link OWNED by the hash is a matching record without DS — a plain NODATA proof
        let ds_ok = covered || o == hx;
        run_expect(&mk(&x, T_DS, 0, None, vec![clear(s.clone(), true)]), rec, "boundary.plusminus", Some(ds_ok), None, &if o == hx { format!("link owned by H({x}): it matches QNAME and its bitmap has no DS") } else { why.clone() });
        // name error: closest encloser b.<apex> (genuine), the synthetic link for the next closer, the true cover of *.b? (exists: use
        // the query below a.<apex> instead, where no wildcard exists)
        let xa = name_of(&rel_name(&z.apex, &[b"x", b"a"]));
        let hxa = h(&xa);
        let (o2, n2) = (if o == hx { hxa.clone() } else if o < hx { sub1(&hxa) } else { add1(&hxa) }, if n == hx { hxa.clone() } else if n < hx { sub1(&hxa) } else { add1(&hxa) });
        let cov2 = o2 != hxa && inside(&o2, &n2, &hxa);
        if let (Some(ce), Some(wc)) = (find_match(&name_of(&rel_name(&z.apex, &[b"a"]))), find_cover(&name_of(&rel_name(&z.apex, &[b"*", b"a"])))) {
            let s2 = RecIn { owner: z.apex.prepend_label(&b32(&o2)[..]).unwrap(), next: n2.clone(), opt_out: false, iterations: z.iterations, salt: z.salt.clone(), types: vec![T_A, T_RRSIG] };
            let recs = vec![clear(ch[ce].1.clone(), false), s2, clear(ch[wc].1.clone(), false)];
            // a genuine record of the set may cover the next closer name all the same; a link owned by the hash matches QNAME
            let cov2 = o2 != hxa && (cov2 || [ce, wc].iter().any(|i| inside(&ch[*i].0, &ch[*i].1.next, &hxa)));
            run_expect(&mk(&xa, T_A, 3, None, recs), rec, "boundary.plusminus", Some(cov2), None, &format!("name error for {xa}: synthetic link {} -> {} around its hash {}: {} it", hex(&o2), hex(&n2), hex(&hxa), if cov2 { "strictly inside" } else { "NOT strictly inside" }));
        }
    }
}

fn permutations(n: usize) -> Vec<Vec<usize>> {
    fn go(cur: &mut Vec<usize>, used: &mut Vec<bool>, n: usize, out: &mut Vec<Vec<usize>>) {
        if cur.len() == n {
            out.push(cur.clone());
            return;
        }
        for i in 0..n {
            if !used[i] {
                used[i] = true;
                cur.push(i);
                go(cur, used, n, out);
                cur.pop();
                used[i] = false;
            }
        }
    }
    let mut out = vec![];
    go(&mut vec![], &mut vec![false; n], n, &mut out);
    out
}

const WRAP_FX: Fixes = Fixes { apex: true, wrap: true, optout: false, deleg: true, wild: true };
const OPTOUT_FX: Fixes = Fixes { apex: true, wrap: false, optout: true, deleg: true, wild: true };

/// Runs a directed case and compares with the expectation by construction.
fn run_expect(c: &Case, rec: &mut Recorder, tag: &str, expect_secure: Option<bool>, expect_exact: Option<&str>, why: &str) {
    let out = run_case(c, rec, true, tag);
    let Some(idx) = out.idx else { return };
    let got = out.proof.as_str();
    let bad = match (expect_exact, expect_secure) {
        (Some(e), _) => got != e,
        (None, Some(es)) => (got == "secure") != es,
        _ => false,
    };
    if !bad {
        rec.stat(&format!("{tag}.as-expected"));
        return;
    }
    let want = expect_exact.map(|e| e.to_string()).unwrap_or_else(|| if expect_secure == Some(true) { "secure".into() } else { "not secure".into() });
    // attribution to an open finding: only if the code as it is (reference port) reproduces the verdict
    // and the port with the finding's repair agrees with the expectation
    let agrees = |fx: Fixes| {
        let v = ref_verify(fx, c);
        match (expect_exact, expect_secure) {
            (Some(e), _) => v == e,
            (None, Some(es)) => (v == "secure") == es,
            _ => true,
        }
    };
    let class = if ref_verify(CURRENT, c) != got {
        ""
    } else if agrees(WRAP_FX) {
        CLASSES[0].0
    } else if agrees(OPTOUT_FX) {
        CLASSES[1].0
    } else if agrees(ALL_FIXED) {
        CLASSES[0].0
    } else {
        ""
    };
    rec.stat(&format!("{tag}.unexpected.{}", if class.is_empty() { "unclassified" } else { class }));
    rec.fail(idx, format!("{tag}: verify_nsec3 says {got}, expected {want}: {why} (q={} type={} rcode={} wl={})", c.q, c.qtype, c.rcode, opt_tok(&c.wl)), class);
}

/// iteration counts at every boundary of every (soft, hard) shape, on genuine complete proofs
fn limits_block(rec: &mut Recorder) {
    let z = ZoneSpec {
        apex: Name::from_ascii("z.").unwrap(),
        names: [(lbls(&Name::from_ascii("z.").unwrap()), apex_types()), (lbls(&Name::from_ascii("a.z.").unwrap()), [T_A].into_iter().collect())].into_iter().collect(),
        salt: vec![1],
        iterations: 0,
        opt_out: false,
    };
    // soft < hard, soft = hard (incl. 0), hard < soft (incl. hard = 0), the defaults, the extremes
    let shapes: [(u16, u16); 14] = [(0, 0), (1, 2), (2, 4), (3, 3), (4, 2), (5, 0), (1, 0), (0, 1), (100, 500), (100, 100), (500, 100), (150, 50), (0, 65535), (65535, 0)];
    for (soft, hard) in shapes {
        let mut its: Vec<u16> = vec![0, 1];
        for b in [soft, hard] {
            its.extend([b.saturating_sub(1), b, b.saturating_add(1)]);
        }
        its.sort();
        its.dedup();
        for it in its {
            let mut zz = z.clone();
            zz.iterations = it;
            // always a genuine chain for this iteration count (so that a validator that wrongly goes on past
            // a limit finds a valid proof); only the extreme counts are too expensive to hash
            let ch = if it <= 600 { chain(&zz) } else {
                let mut c0 = chain(&z);
                for r in c0.iter_mut() { r.iterations = it; }
                c0
            };
            let expect: &str = if it > hard { "bogus" } else if it > soft { "insecure" } else { "secure" };
            for (q, rcode) in [("a.z.", 0u16), ("b.z.", 3), ("z.", 0)] {
                let c = Case { q: Name::from_ascii(q).unwrap(), qtype: T_TXT, soa: Some(z.apex.clone()), rcode, wl: None, soft, hard, recs: ch.clone() };
                // the property: > hard ⇒ Bogus, > soft ⇒ not Secure, a complete proof within both limits ⇒ Secure
                let (es, ee) = match expect {
                    "bogus" => (None, Some("bogus")),
                    "insecure" => (Some(false), None),
                    _ => (Some(true), None),
                };
                run_expect(&c, rec, "limits", es, ee, &format!("iterations {it}, soft limit {soft}, hard limit {hard}, complete genuine proof"));
                // mixed iteration counts ⇒ never Secure
                let mut c2 = c.clone();
                c2.recs[0].iterations = it.wrapping_add(1);
                run_expect(&c2, rec, "limits", Some(false), None, "the records carry different iteration counts");
            }
        }
    }
}

fn directed(rec: &mut Recorder) {
    let zones = [directed_zone("z.", vec![], 0), directed_zone("a.b.", vec![0xab, 0xcd], 2), directed_zone("z.", vec![7], 1), directed_zone("a.b.", vec![], 0)];
    for z in &zones {
        boundary(rec, z);
        // the same with the secure delegation e.<apex> (NS + DS): the record preceding it must not prove "no DS"
        let mut zd = z.clone();
        zd.names.insert(rel_name(&zd.apex, &[b"e"]), [T_NS, T_DS].into_iter().collect());
        boundary(rec, &zd);
        let proofs = build_proofs(z);
        rec.stat_n("directed.proofs-built", proofs.len() as u64);
        for b in &proofs {
            let n = b.case.recs.len();
            // ---- control: the genuine proof with the zone's own flags cleared / as decisive needs
            // ---- optmix: every flag assignment × every order
            for perm in permutations(n) {
                for flags in 0..(1u32 << n) {
                    let mut c = b.case.clone();
                    c.recs = perm.iter().map(|i| {
                        let mut r = b.case.recs[*i].clone();
                        r.opt_out = flags >> i & 1 == 1;
                        r
                    }).collect();
                    let dflag = b.decisive.map(|d| flags >> d & 1 == 1);
                    let (es, why) = match b.kind {
                        PK::Match => (true, "a record matching QNAME without the type proves NODATA whatever the Opt-Out flags".to_string()),
                        PK::DsOptOut => (dflag == Some(true), format!("no record matches QNAME; the record covering QNAME has Opt-Out = {} (RFC 5155 §8.6: Secure iff it is set)", dflag == Some(true))),
                        _ => (dflag == Some(false), format!("complete {:?} proof; the record covering the next closer name has Opt-Out = {} (RFC 5155 §9.2: Secure iff it is clear)", b.kind, dflag == Some(true))),
                    };
                    run_expect(&c, rec, "optmix", Some(es), None, &why);
                }
            }
            // ---- bitmap: the type bitmap of each record the proof relies on (closest encloser, QNAME match,
            //      wildcard match) — RFC 5155 §8.3, RFC 6840 §4.1, §8.5, §8.7
            {
                let mut genuine = b.case.clone();
                for (i, r) in genuine.recs.iter_mut().enumerate() {
                    r.opt_out = b.kind == PK::DsOptOut && Some(i) == b.decisive;
                }
                let qt = genuine.qtype;
                // (role index in recs, bitmap, expected Secure, why)
                let mut variants: Vec<(usize, Vec<u16>, bool, String)> = vec![];
                match b.kind {
                    PK::NxDomain | PK::WildNoData | PK::DsOptOut => {
                        // record 0 matches the closest encloser
                        for (ts, ok) in [(vec![T_NS], false), (vec![T_NS, T_DS], false), (vec![T_DNAME], false), (vec![T_NS, T_SOA], true), (vec![T_A, T_DNAME], false), (vec![], true)] {
                            let ok = ok || b.kind == PK::DsOptOut; // the Opt-Out DS check does not use the closest encloser record
                            variants.push((0, ts.clone(), ok, format!("closest encloser record with bitmap {ts:?} (RFC 5155 §8.3: NS without SOA, or DNAME, must not be used)")));
                        }
                    }
                    _ => {}
                }
                if b.kind == PK::Match {
                    for (ts, ok) in [(vec![qt], false), (vec![T_CNAME], false), (vec![T_A, qt], false), (vec![T_NS], false), (vec![T_NS, T_SOA], true), (vec![], true), (vec![T_A], true)] {
                        variants.push((0, ts.clone(), ok, format!("record matching QNAME with bitmap {ts:?}, QTYPE {qt} (§8.5: neither QTYPE nor CNAME; RFC 6840 §4.1: not an ancestor delegation unless QTYPE = DS)")));
                    }
                }
                if b.kind == PK::WildNoData {
                    let w = genuine.recs.len() - 1; // the record matching the wildcard is the last one built
                    for (ts, ok) in [(vec![qt], false), (vec![T_CNAME], false), (vec![T_A, qt], false), (vec![T_A], true), (vec![], true)] {
                        variants.push((w, ts.clone(), ok, format!("record matching the wildcard at the closest encloser with bitmap {ts:?}, QTYPE {qt} (§8.7)")));
                    }
                }
                for (i, ts, ok, why) in variants {
                    if i >= genuine.recs.len() {
                        continue;
                    }
                    let mut c = genuine.clone();
                    c.recs[i].types = ts;
                    run_expect(&c, rec, "bitmap", Some(ok), None, &why);
                    // the same record for a DS query: an ancestor-delegation record matching QNAME does prove "no DS"
                    if b.kind == PK::Match && c.recs[i].types == vec![T_NS] {
                        let mut d = c.clone();
                        d.qtype = T_DS;
                        run_expect(&d, rec, "bitmap", Some(true), None, "record matching QNAME with bitmap [NS], QTYPE DS: the parent side is authoritative for DS");
                    }
                }
                // an owner name without any label (the root): "record name format is invalid"
                let mut c = genuine.clone();
                c.recs[0].owner = Name::root();
                run_expect(&c, rec, "ownerbase", None, Some("bogus"), "an NSEC3 record owned by the root name has no hash label");
            }
            // ---- ownerbase: flags cleared except the decisive one of the Opt-Out DS proof
            let mut genuine = b.case.clone();
            for (i, r) in genuine.recs.iter_mut().enumerate() {
                r.opt_out = b.kind == PK::DsOptOut && Some(i) == b.decisive;
            }
            let apex = z.apex.clone();
            let upper = Name::from_labels(apex.iter().map(|l| l.to_ascii_uppercase())).unwrap();
            let child = apex.prepend_label("sub").unwrap();
            let grandchild = child.prepend_label("a").unwrap();
            let parent = apex.base_name();
            let sibling = parent.prepend_label("sibling").unwrap();
            let bases: Vec<(&str, Name, bool)> = vec![
                ("zone", apex.clone(), true),
                ("zone-other-case", upper, true),
                ("child", child, false),
                ("grandchild", grandchild, false),
                ("parent", parent, false),
                ("sibling", sibling, false),
                ("root", Name::root(), false),
            ];
            for (bn, base, ok) in &bases {
                // every record re-based, and each single record re-based among genuine ones
                let mut which: Vec<Vec<usize>> = vec![(0..n).collect()];
                if n > 1 {
                    which.extend((0..n).map(|i| vec![i]));
                }
                for w in which {
                    let mut c = genuine.clone();
                    for i in &w {
                        let l: Vec<u8> = c.recs[*i].owner.iter().next().unwrap().to_vec();
                        let Ok(o) = base.prepend_label(&l[..]) else { continue };
                        c.recs[*i].owner = o;
                    }
                    let why = if *ok {
                        format!("the owners are <hash>.<{bn}> — the SOA name up to letter case — and the proof is complete")
                    } else {
                        format!("{} of {} NSEC3 owner(s) re-based to <hash>.<{bn} of the zone> ({base}): not a record of the response's zone", w.len(), n)
                    };
                    run_expect(&c, rec, "ownerbase", Some(*ok), if *ok { None } else { Some("bogus") }, &why);
                }
            }
        }
    }
}

pub fn run(o: &Opts, rec: &mut Recorder) {
    rec.rule = "cases = (query, SOA, rcode, answer-RRSIG labels, NSEC3 list, limits); zones over labels {a,b,*} depth ≤ 3 with real SHA-1 NSEC3 chains built by the harness, subsets/mixtures/mutations of the chain, directed families with expectations by construction (iteration limits at every boundary of soft < / = / > hard; every Opt-Out flag assignment × record order for every proof kind; NSEC3 owners re-based to child / grandchild / parent / sibling / root / other-case of the zone), plus responses of an NSEC3-signed InMemoryZoneHandler through DnssecDnsHandle; non-trivial = ≥1 record, rcode NOERROR/NXDOMAIN and iterations within both limits (the validators proper are reached); distinct by case line".into();
    for l in o.pre_lines.clone() {
        exec(&l, rec);
    }
    rec.corpus_cases = rec.cases.len();
    if o.replay_only {
        return;
    }
    limits_block(rec);
    directed(rec);
    let mut r = Rng::new(o.seed);
    let n = o.n(6000, 60_000);
    for _ in 0..n {
        let c = gen_case(&mut r);
        run_case(&c, rec, true, "gen");
    }
    // base32hex on its own (the model's encoder against the independent one here)
    for _ in 0..o.n(300, 3000) {
        let k = r.below(24) as usize;
        let x = r.bytes(k);
        rec.case(format!("b32 {}", hex(&x)), hex(&b32(&x)));
    }
    enumerate(o, rec);
    e2e::run(o, rec);
    e2e::run_hl(rec);
}

// ------------------------------------------------------------------ end to end (server proofs)
//
// An NSEC3-signed `InMemoryZoneHandler` (real Ed25519 key) behind a `Catalog` answers every query
// in/around the zone, twice: raw (DO set) and through the real validator `DnssecDnsHandle` whose trust
// anchor is the zone key.  Completeness: the validator must accept (Ok) what the server sends —
// negative and wildcard responses (the property's clause) and plain positive answers (repaired in
// /repo a0f75fc, 1223dc5: the caller no longer evaluates the QNAME NSEC3 the server attaches to them as a denial).  The NSEC3 records / SOA name / rcode / answers of each raw response are also handed
// to `verify_nsec3` exactly as `verify_response` selects them and recorded as an ordinary `v` case, so
// the model and the soundness oracle see the server's own proofs as well.
mod e2e {
    use std::net::SocketAddr;
    use std::pin::Pin;
    use std::sync::{Arc, Mutex};
    use std::time::Duration;

    use futures_util::stream::{self, Stream, StreamExt};
    use hickory_net::dnssec::DnssecDnsHandle;
    use hickory_net::runtime::{TokioRuntimeProvider, TokioTime};
    use hickory_net::xfer::{DnsHandle, Protocol};
    use hickory_net::NetError;
    use hickory_proto::dnssec::crypto::Ed25519SigningKey;
    use hickory_proto::dnssec::rdata::{DNSKEY, DS};
    use hickory_proto::dnssec::{DigestType, DnssecSigner, SigningKey, TrustAnchors};
    use hickory_proto::op::{DnsRequest, DnsRequestOptions, DnsResponse};
    use hickory_proto::rr::rdata::{CNAME, NS, SOA, TXT};
    use hickory_proto::serialize::binary::{BinEncodable, BinEncoder};
    use hickory_server::dnssec::NxProofKind;
    use hickory_server::server::{Request, RequestHandler, ResponseHandler, ResponseInfo};
    use hickory_server::store::in_memory::InMemoryZoneHandler;
    use hickory_server::zone_handler::{AxfrPolicy, Catalog, MessageResponse, ZoneType};

    use super::*;

    #[derive(Clone, Default)]
    struct Capture(Arc<Mutex<Vec<u8>>>);

    #[async_trait::async_trait]
    impl ResponseHandler for Capture {
        async fn send_response<'a>(
            &mut self,
            response: MessageResponse<
                '_,
                'a,
                impl Iterator<Item = &'a Record> + Send + 'a,
                impl Iterator<Item = &'a Record> + Send + 'a,
                impl Iterator<Item = &'a Record> + Send + 'a,
                impl Iterator<Item = &'a Record> + Send + 'a,
            >,
        ) -> Result<ResponseInfo, NetError> {
            let mut buf = self.0.lock().unwrap();
            buf.clear();
            let mut encoder = BinEncoder::new(&mut buf);
            encoder.set_max_size(u16::MAX);
            Ok(response.destructive_emit(&mut encoder)?)
        }
    }

    pub struct Srv {
        catalog: Arc<Catalog>,
        anchors: Arc<TrustAnchors>,
    }

    /// what the upstream does with the catalog's answer to one query (handle-level families)
    type Mutator = Arc<dyn Fn(&Query, DnsResponse) -> DnsResponse + Send + Sync>;

    /// in-process `DnsHandle`: one request → the catalog's response.  `child`: a second catalog that
    /// answers everything at or below `child.0` except DS queries for that name (as the child zone's
    /// servers would); `mutate`: applied to the answer (a hostile or broken upstream).
    #[derive(Clone)]
    struct CatalogHandle {
        catalog: Arc<Catalog>,
        child: Option<(Name, Arc<Catalog>)>,
        mutate: Option<Mutator>,
        /// deliver negative responses the way a resolver-like upstream does: as
        /// `Err(NetError::Dns(DnsError::NoRecordsFound(..)))` carrying the authority section
        negative_as_error: bool,
    }

    impl CatalogHandle {
        fn plain(catalog: Arc<Catalog>) -> Self {
            Self { catalog, child: None, mutate: None, negative_as_error: false }
        }
    }

    async fn ask_catalog(catalog: &Catalog, request: &DnsRequest) -> Result<DnsResponse, NetError> {
        let bytes = request.to_bytes().map_err(|e| NetError::from(format!("encode: {e}")))?;
        let addr: SocketAddr = "127.0.0.1:5353".parse().unwrap();
        let req = Request::from_bytes(bytes, addr, Protocol::Tcp).map_err(|e| NetError::from(format!("request: {e}")))?;
        let cap = Capture::default();
        catalog.handle_request::<_, TokioTime>(&req, cap.clone()).await;
        let buf = cap.0.lock().unwrap().clone();
        DnsResponse::from_buffer(buf).map_err(|e| NetError::from(format!("decode: {e}")))
    }

    impl DnsHandle for CatalogHandle {
        type Response = Pin<Box<dyn Stream<Item = Result<DnsResponse, NetError>> + Send>>;
        type Runtime = TokioRuntimeProvider;

        fn send(&self, request: DnsRequest) -> Self::Response {
            let me = self.clone();
            Box::pin(stream::once(async move {
                let query = request.queries.first().cloned();
                let catalog = match (&me.child, &query) {
                    (Some((cn, cc)), Some(q)) if cn.zone_of(&q.name) && !(q.query_type == RecordType::DS && q.name == *cn) => cc.clone(),
                    _ => me.catalog.clone(),
                };
                let resp = ask_catalog(&catalog, &request).await?;
                let resp = match (&me.mutate, &query) {
                    (Some(m), Some(q)) => m(q, resp),
                    _ => resp,
                };
                if me.negative_as_error && resp.answers.is_empty() {
                    if let Some(q) = query {
                        let mut nr = hickory_net::NoRecords::new(q, resp.metadata.response_code);
                        nr.authorities = Some(resp.authorities.iter().cloned().collect());
                        return Err(NetError::Dns(hickory_net::DnsError::NoRecordsFound(nr)));
                    }
                }
                Ok(resp)
            }))
        }
    }

    fn rdata_for(t: u16) -> Option<RData> {
        Some(match t {
            T_A => RData::A(A::new(192, 0, 2, 1)),
            T_TXT => RData::TXT(TXT::new(vec!["x".to_string()])),
            T_NS => RData::NS(NS(Name::from_ascii("ns.elsewhere.").unwrap())),
            T_CNAME => RData::CNAME(CNAME(Name::from_ascii("target.elsewhere.").unwrap())),
            T_DS => RData::DNSSEC(DNSSECRData::DS(DS::new(1, Algorithm::ED25519, DigestType::SHA256, vec![7; 32]))),
            _ => return None,
        })
    }

    fn build(z: &ZoneSpec) -> Option<Srv> {
        build_with(z, &[]).map(|x| x.0)
    }

    /// `extra`: further records upserted before signing (the real DS of a signed child zone)
    fn build_with(z: &ZoneSpec, extra: &[Record]) -> Option<(Srv, DNSKEY)> {
        let mut h = InMemoryZoneHandler::<TokioRuntimeProvider>::empty(
            z.apex.clone(),
            ZoneType::Primary,
            AxfrPolicy::Deny,
            Some(NxProofKind::Nsec3 {
                algorithm: Nsec3HashAlgorithm::SHA1,
                salt: z.salt.clone().into(),
                iterations: z.iterations,
                opt_out: z.opt_out,
            }),
        );
        let soa = SOA::new(Name::from_ascii("ns.elsewhere.").unwrap(), Name::from_ascii("h.elsewhere.").unwrap(), 0, 3600, 300, 3600000, 300);
        h.upsert_mut(Record::from_rdata(z.apex.clone(), 300, RData::SOA(soa)), 0);
        h.upsert_mut(Record::from_rdata(z.apex.clone(), 300, RData::NS(NS(Name::from_ascii("ns.elsewhere.").unwrap()))), 0);
        let apex = lbls(&z.apex);
        for (n, ts) in &z.names {
            if *n == apex {
                continue;
            }
            for t in ts {
                if let Some(rd) = rdata_for(*t) {
                    h.upsert_mut(Record::from_rdata(name_of(n), 300, rd), 0);
                }
            }
        }
        for r in extra {
            h.upsert_mut(r.clone(), 0);
        }
        let key = Ed25519SigningKey::from_pkcs8(&Ed25519SigningKey::generate_pkcs8().ok()?).ok()?;
        let public = key.to_public_key().ok()?;
        let key: Box<dyn SigningKey> = Box::new(key);
        let dnskey = DNSKEY::from_key(&public);
        h.add_zone_signing_key_mut(DnssecSigner::new(dnskey.clone(), key, z.apex.clone(), Duration::from_secs(86400))).ok()?;
        h.secure_zone_mut().ok()?;
        let mut catalog = Catalog::new();
        catalog.upsert(z.apex.clone().into(), vec![Arc::new(h)]);
        let mut anchors = TrustAnchors::empty();
        anchors.insert(&public);
        Some((Srv { catalog: Arc::new(catalog), anchors: Arc::new(anchors) }, dnskey))
    }

    /// verdict class of the validator when the same upstream delivers negative responses as
    /// `NoRecordsFound` errors (the path `verify_response` translates back into a message)
    fn ask_as_error(rt: &tokio::runtime::Runtime, srv: &Srv, q: &Name, t: u16) -> String {
        let mut inner = CatalogHandle::plain(srv.catalog.clone());
        inner.negative_as_error = true;
        let handle = DnssecDnsHandle::with_trust_anchor(inner, srv.anchors.clone());
        classify(&send_through(rt, &handle, q, t, None))
    }

    /// (raw response with DO set, verdict of the validator: Ok / error text)
    fn ask(rt: &tokio::runtime::Runtime, srv: &Srv, q: &Name, t: u16) -> (Option<DnsResponse>, Result<DnsResponse, String>) {
        rt.block_on(async {
            let inner = CatalogHandle::plain(srv.catalog.clone());
            let mut opts = DnsRequestOptions::default();
            opts.use_edns = true;
            opts.edns_set_dnssec_ok = true;
            opts.recursion_desired = false;
            let query = Query::new(q.clone(), RecordType::from(t));
            let raw = inner.send(DnsRequest::from_query(query.clone(), opts)).next().await.and_then(|r| r.ok());
            let secure = DnssecDnsHandle::with_trust_anchor(inner, srv.anchors.clone());
            let validated = match secure.send(DnsRequest::from_query(query, opts)).next().await {
                Some(Ok(r)) => Ok(r),
                Some(Err(e)) => Err(format!("{e}")),
                None => Err("no result".into()),
            };
            (raw, validated)
        })
    }

    pub fn run(o: &Opts, rec: &mut Recorder) {
        let rt = tokio::runtime::Builder::new_current_thread().enable_all().build().unwrap();
        let mut r = Rng::new(o.seed ^ 0xE2E);
        let n_zones = o.n(6, 60);
        let apex = Name::from_ascii("z.").unwrap();
        let queries: Vec<Name> = std::iter::once(apex.clone()).chain(all_rel(3).iter().map(|n| name_of(&rel_name(&apex, n)))).collect();
        for zi in 0..n_zones {
            let mut z = gen_zone(&mut r);
            z.apex = apex.clone();
            // re-root the generated names under z.
            let old: Vec<(Lbls, BTreeSet<u16>)> = z.names.iter().map(|(k, v)| (k.clone(), v.clone())).collect();
            z.names.clear();
            z.names.insert(lbls(&apex), apex_types());
            for (n, ts) in old {
                let depth = n.iter().take_while(|l| matches!(&l[..], b"a" | b"b" | b"*")).count().min(3);
                if depth == 0 || ts.contains(&T_SOA) || ts.contains(&T_DNAME) {
                    continue;
                }
                let mut m: Lbls = n[..depth].to_vec();
                m.push(b"z".to_vec());
                // RFC 4592 §4: no NS / DS / CNAME at wildcard names, nothing below a `*` label
                let ts: BTreeSet<u16> = if m[0] == b"*" { [T_A].into_iter().collect() } else { ts };
                if m[1..].iter().any(|l| l == b"*") {
                    continue;
                }
                z.names.insert(m, ts);
            }
            if zi == 0 {
                z.opt_out = false;
                // fixed shape in every tier: a CNAME owner, a delegation with and without DS, a wildcard and a
                // name with two types among the queried names (the quick tier's random zones missed CNAME owners once)
                z.names.insert(rel_name(&apex, &[b"a"]), [T_CNAME].into_iter().collect());
                z.names.insert(rel_name(&apex, &[b"b"]), [T_A, T_TXT].into_iter().collect());
                z.names.insert(rel_name(&apex, &[b"a", b"b"]), [T_CNAME].into_iter().collect());
                z.names.insert(rel_name(&apex, &[b"*", b"b"]), [T_A].into_iter().collect());
            }
            if zi == 1 {
                z.opt_out = true;
                z.names.insert(rel_name(&apex, &[b"b"]), [T_CNAME].into_iter().collect());
                z.names.insert(rel_name(&apex, &[b"a"]), [T_NS].into_iter().collect());
                z.names.insert(rel_name(&apex, &[b"a", b"b"]), [T_NS, T_DS].into_iter().collect());
                // glue below the two cuts: must not get NSEC3 records, queries for it are referrals
                z.names.insert(rel_name(&apex, &[b"b", b"a"]), [T_A].into_iter().collect());
                z.names.insert(rel_name(&apex, &[b"b", b"a", b"b"]), [T_A].into_iter().collect());
            }
            let Some(srv) = build(&z) else {
                rec.stat("e2e.zone-build-failed");
                continue;
            };
            rec.stat("e2e.zones");
            for q in &queries {
                for t in [T_A, T_DS, T_TXT] {
                    check_one(rec, &rt, &srv, &z, q, t);
                }
            }
        }
    }

    /// `srv <apex> <optout> <iter> <salt> <n> {<name> <types>}*n <qname> <qtype>` — corpus / replay form
    pub fn srv_line(z: &ZoneSpec, q: &Name, t: u16) -> String {
        let mut s = format!("srv {} {} {} {} {}", name_tok(&z.apex), b(z.opt_out), z.iterations, hex(&z.salt), z.names.len());
        for (n, ts) in &z.names {
            s += &format!(" {} {}", name_tok(&name_of(n)), types_tok(&ts.iter().copied().collect::<Vec<_>>()));
        }
        s + &format!(" {} {}", name_tok(q), t)
    }

    pub fn exec_srv(t: &[&str], rec: &mut Recorder) -> Option<()> {
        let apex = parse_name(t.get(1)?)?;
        let opt_out = *t.get(2)? == "1";
        let iterations: u16 = t.get(3)?.parse().ok()?;
        let salt = unhex(t.get(4)?)?;
        let n: usize = t.get(5)?.parse().ok()?;
        let mut names = BTreeMap::new();
        for i in 0..n {
            let nm = parse_name(t.get(6 + 2 * i)?)?;
            let ts: BTreeSet<u16> = if *t.get(7 + 2 * i)? == "-" { BTreeSet::new() } else { t[7 + 2 * i].split(',').map(|x| x.parse::<u16>().ok()).collect::<Option<_>>()? };
            names.insert(lbls(&nm), ts);
        }
        let q = parse_name(t.get(6 + 2 * n)?)?;
        let qt: u16 = t.get(7 + 2 * n)?.parse().ok()?;
        let z = ZoneSpec { apex, names, salt, iterations, opt_out };
        let rt = tokio::runtime::Builder::new_current_thread().enable_all().build().ok()?;
        let srv = build(&z)?;
        check_one(rec, &rt, &srv, &z, &q, qt);
        Some(())
    }

    fn fail_srv(rec: &mut Recorder, z: &ZoneSpec, q: &Name, t: u16, what: String, class: &str) {
        rec.impl_only += 1;
        let idx = rec.case(srv_line(z, q, t), "~".into());
        rec.fail(idx, what, class);
    }

    fn check_one(rec: &mut Recorder, rt: &tokio::runtime::Runtime, srv: &Srv, z: &ZoneSpec, q: &Name, t: u16) {
        let (raw, validated) = ask(rt, srv, q, t);
        let Some(resp) = raw else {
            rec.stat("e2e.no-response");
            return;
        };
        let nsec3s: Vec<RecIn> = resp
            .authorities
            .iter()
            .filter_map(|rr| match &rr.data {
                RData::DNSSEC(DNSSECRData::NSEC3(n)) => Some(RecIn {
                    owner: rr.name.clone(),
                    next: n.next_hashed_owner_name().to_vec(),
                    opt_out: n.opt_out(),
                    iterations: n.iterations(),
                    salt: n.salt().to_vec(),
                    types: {
                        let mut v: Vec<u16> = n.type_bit_maps().map(u16::from).collect();
                        v.sort();
                        v
                    },
                }),
                _ => None,
            })
            .collect();
        let rcode: u16 = resp.metadata.response_code.into();
        let n_answers = resp.answers.len();
        let soa = resp.authorities.iter().find(|rr| rr.record_type() == RecordType::SOA).map(|rr| rr.name.clone());
        let wl = resp.answers.iter().find_map(|rr| match &rr.data {
            RData::DNSSEC(DNSSECRData::RRSIG(s)) => Some(s.input().num_labels),
            _ => None,
        });
        let referral = soa.is_none() && n_answers == 0;
        let plain_positive = n_answers > 0 && wl.map(|k| k >= q.num_labels()).unwrap_or(true);
        let vtag = if validated.is_ok() { "accepted" } else { "rejected" };
        // what RFC 1034 §4.3.2 / 4592 say the zone answers, computed from the zone data
        let zone_view: Zone = spec_view(z);
        let want = kind(&zone_view, &lbls(&z.apex), &lbls(q), t);

        // ---- plain positive answers: outside "negative responses", but the validator must not reject them
        if plain_positive {
            rec.stat(&format!("e2e.validator.positive.{vtag}.nsec3-attached-{}", !nsec3s.is_empty()));
            if let Err(e) = &validated {
                fail_srv(
                    rec,
                    z,
                    q,
                    t,
                    format!("completeness: DnssecDnsHandle rejects the server's plain positive answer for {q} type {t} ({} NSEC3 attached): {e} — zone {}", nsec3s.len(), describe_spec(z)),
                    "",
                );
            }
        }
        if nsec3s.is_empty() {
            rec.stat(&format!("e2e.response-without-nsec3.rcode{rcode}.answers{}", n_answers.min(1)));
            if n_answers == 0 && (rcode == 0 || rcode == 3) && !resp.authorities.iter().any(|rr| rr.record_type() == RecordType::NS) {
                fail_srv(rec, z, q, t, format!("server sent a negative response (rcode {rcode}) without any NSEC3 record"), "");
            }
            return;
        }
        let c = Case { q: q.clone(), qtype: t, soa, rcode, wl, soft: 100, hard: 500, recs: nsec3s };
        // the real call shape: answers as sent by the server
        let datas: Vec<NSEC3> = c.recs.iter().map(|r| NSEC3::new(Nsec3HashAlgorithm::SHA1, r.opt_out, r.iterations, r.salt.clone(), r.next.clone(), r.types.iter().map(|t| RecordType::from(*t)))).collect();
        let pairs: Vec<(&Name, &NSEC3)> = c.recs.iter().map(|r| &r.owner).zip(datas.iter()).collect();
        let direct = verify_nsec3(&Query::new(q.clone(), RecordType::from(t)), c.soa.as_ref(), resp.metadata.response_code, &resp.answers, &pairs, 100, 500);
        let out = run_case(&c, rec, true, "e2e");
        rec.stat(&format!("e2e.server-proof.{}", proof_str(direct)));
        if proof_str(direct) != out.proof {
            if let Some(idx) = out.idx {
                rec.fail(idx, format!("verify_nsec3 on the server's answers ({}) differs from the case-line call ({})", proof_str(direct), out.proof), "");
            }
        }
        if plain_positive {
            rec.stat(&format!("e2e.positive-answer-carrying-nsec3.{}", proof_str(direct)));
            return;
        }
        if referral {
            rec.stat(&format!("e2e.referral-with-nsec3.validator-{vtag}"));
            return;
        }
        let agrees = match want {
            Kind::NxDomain => rcode == 3,
            Kind::NoData | Kind::WildNoData => rcode == 0 && n_answers == 0,
            Kind::WildAnswer(_) => rcode == 0 && n_answers > 0,
            Kind::Answer | Kind::Referral => true,
        };
        if !agrees {
            // the response itself is not the zone's answer (server lookup, C10): its proof cannot be
            // expected to verify
            rec.stat(&format!("e2e.server-response-contradicts-zone.want-{want:?}.rcode{rcode}"));
            return;
        }
        // opt-out zones: an empty non-terminal that exists only because of insecure delegations has no
        // NSEC3 (RFC 5155 §7.1); its NODATA cannot be proved Secure by anyone (erratum 3441)
        let ql = b32(&nsec3_hash(&z.salt, q, z.iterations));
        if z.opt_out && want == Kind::NoData && !c.recs.iter().any(|r| owner_label(r) == ql) {
            rec.stat("e2e.optout-ent-without-nsec3.not-provable");
            return;
        }
        rec.stat(&format!("e2e.validator.negative-or-wildcard.{vtag}"));
        // the same negative response delivered as a NoRecordsFound error must get the same treatment
        if n_answers == 0 {
            let as_err = ask_as_error(rt, srv, q, t);
            let same = as_err.starts_with("ok") == validated.is_ok();
            rec.stat(&format!("e2e.validator.negative-as-error.{}", if same { "same-verdict" } else { "different-verdict" }));
            if !same {
                fail_srv(rec, z, q, t, format!("the server's negative response for {q} type {t} is {} when delivered as a message but {as_err} when the upstream delivers it as Err(NoRecordsFound) with the same authority section", vtag), "");
            }
        }
        if direct != Proof::Secure {
            fail_srv(
                rec,
                z,
                q,
                t,
                format!("completeness: the server's own NSEC3 proof for {} type {} (rcode {}, {} answers) is not accepted by verify_nsec3: {} — zone {}", q, t, rcode, n_answers, proof_str(direct), describe_spec(z)),
                "",
            );
        } else if let Err(e) = &validated {
            fail_srv(
                rec,
                z,
                q,
                t,
                format!("completeness: DnssecDnsHandle rejects the server's response for {} type {} (rcode {}, {} answers) although verify_nsec3 says Secure: {e} — zone {}", q, t, rcode, n_answers, describe_spec(z)),
                "",
            );
        }
    }

    // -------------------------------------------------------------- handle-level families (`hl …` lines)
    //
    // Everything here goes through `DnssecDnsHandle::send` (hence `clone_with_context` and
    // `verify_response`) with NON-DEFAULT configuration or a hostile upstream; expectations by construction.
    //   hl limits <soft|-> <hard|-> <iterations> <0 top level | 1 nested no-DS proof | 2 signed child via DS chain>   configured NSEC3 iteration limits must reach
    //        verify_nsec3, at the top level and in the nested DS lookup for an insecure child zone
    //   hl config <anchors-wrong|anchors-default|cache1|ttl|depth0>   every other configurable field
    //   hl inject <forged+sibling|forged-alone|genuine-only>   an UNSIGNED NSEC3 next to a signed RRset of the same owner

    pub const CL_INJECT: &str = "unsigned-nsec3-used-because-sibling-rrset-of-same-owner-is-secure";

    fn classify(r: &Result<DnsResponse, NetError>) -> String {
        match r {
            Ok(resp) => {
                let all = || resp.answers.iter().chain(resp.authorities.iter());
                if all().any(|r| r.proof == Proof::Secure) {
                    "ok-secure".into()
                } else if all().any(|r| r.proof == Proof::Bogus) {
                    "ok-bogus".into()
                } else if all().any(|r| r.proof == Proof::Insecure) {
                    "ok-insecure".into()
                } else {
                    "ok-indeterminate".into()
                }
            }
            Err(NetError::Dns(hickory_net::DnsError::Nsec { proof, .. })) => format!("err-nsec-{}", proof_str(*proof)),
            Err(_) => "err-other".into(),
        }
    }

    fn hl_zone(iterations: u16, wildcard: bool) -> ZoneSpec {
        let apex = Name::from_ascii("z.").unwrap();
        let mut names: BTreeMap<Lbls, BTreeSet<u16>> = BTreeMap::new();
        names.insert(lbls(&apex), apex_types());
        names.insert(rel_name(&apex, &[b"a"]), [T_A].into_iter().collect());
        names.insert(rel_name(&apex, &[b"c"]), [T_NS].into_iter().collect()); // insecure delegation to the child zone c.z.
        if wildcard {
            names.insert(rel_name(&apex, &[b"*"]), [T_A].into_iter().collect());
        }
        ZoneSpec { apex, names, salt: vec![0xaa], iterations, opt_out: false }
    }

    /// the unsigned child zone c.z. with x.c.z. A
    fn child_catalog() -> (Name, Arc<Catalog>) {
        let apex = Name::from_ascii("c.z.").unwrap();
        let mut h = InMemoryZoneHandler::<TokioRuntimeProvider>::empty(apex.clone(), ZoneType::Primary, AxfrPolicy::Deny, None);
        let soa = SOA::new(Name::from_ascii("ns.elsewhere.").unwrap(), Name::from_ascii("h.elsewhere.").unwrap(), 1, 3600, 300, 3600000, 300);
        h.upsert_mut(Record::from_rdata(apex.clone(), 300, RData::SOA(soa)), 0);
        h.upsert_mut(Record::from_rdata(apex.clone(), 300, RData::NS(NS(Name::from_ascii("ns.elsewhere.").unwrap()))), 0);
        h.upsert_mut(Record::from_rdata(Name::from_ascii("x.c.z.").unwrap(), 300, RData::A(A::new(192, 0, 2, 9))), 0);
        let mut catalog = Catalog::new();
        catalog.upsert(apex.clone().into(), vec![Arc::new(h)]);
        (apex, Arc::new(catalog))
    }

    fn send_through(rt: &tokio::runtime::Runtime, handle: &DnssecDnsHandle<CatalogHandle>, q: &Name, t: u16, max_depth: Option<usize>) -> Result<DnsResponse, NetError> {
        rt.block_on(async {
            let mut opts = DnsRequestOptions::default();
            opts.use_edns = true;
            opts.edns_set_dnssec_ok = true;
            opts.recursion_desired = false;
            if let Some(d) = max_depth {
                opts.max_request_depth = d;
            }
            match handle.send(DnsRequest::from_query(Query::new(q.clone(), RecordType::from(t)), opts)).next().await {
                Some(r) => r,
                None => Err(NetError::from("no result")),
            }
        })
    }

    fn hl_record(rec: &mut Recorder, line: String, got: &str, ok: bool, what: String, class: &str) {
        if std::env::var_os("C09_HL_DEBUG").is_some() {
            eprintln!("{line} => {got}");
        }
        rec.impl_only += 1;
        let idx = rec.case(line, "~".into());
        rec.nontrivial(idx);
        rec.stat(&format!("hl.{}", if ok { "as-expected" } else { "unexpected" }));
        rec.stat(&format!("hl.outcome.{got}"));
        if !ok {
            rec.fail(idx, what, class);
        }
    }

    /// outcome of the nested scenario under the DEFAULT limits for an iteration count within both limits (0),
    /// above the soft (1), above the hard limit (2)
    fn nested_reference(rt: &tokio::runtime::Runtime, pos: usize) -> Option<String> {
        thread_local! {
            static REF: std::cell::RefCell<[Option<String>; 3]> = const { std::cell::RefCell::new([None, None, None]) };
        }
        if let Some(v) = REF.with(|r| r.borrow()[pos].clone()) {
            return Some(v);
        }
        let z = hl_zone([15u16, 150, 600][pos], false);
        let srv = build(&z)?;
        let mut inner = CatalogHandle::plain(srv.catalog.clone());
        inner.child = Some(child_catalog());
        let handle = DnssecDnsHandle::with_trust_anchor(inner, srv.anchors.clone());
        let got = classify(&send_through(rt, &handle, &Name::from_ascii("x.c.z.").unwrap(), T_A, None));
        REF.with(|r| r.borrow_mut()[pos] = Some(got.clone()));
        Some(got)
    }

    /// `hl limits … 2`: a SIGNED child zone s.z. (NSEC3 with `iterations`) under the signed parent z. (3
    /// iterations, real DS of the child key); the trust anchor is the parent key, so a negative answer of the child
    /// is validated through DS + DNSKEY lookups in nested clones and its NSEC3 proof with the configured limits.
    fn hl_limits_chain(rec: &mut Recorder, rt: &tokio::runtime::Runtime, soft: Option<u16>, hard: Option<u16>, iterations: u16) -> Option<()> {
        let child_apex = Name::from_ascii("s.z.").unwrap();
        let mut cz = ZoneSpec { apex: child_apex.clone(), names: BTreeMap::new(), salt: vec![0xcc], iterations, opt_out: false };
        cz.names.insert(lbls(&child_apex), apex_types());
        cz.names.insert(rel_name(&child_apex, &[b"a"]), [T_A].into_iter().collect());
        let (child, child_key) = build_with(&cz, &[])?;
        let digest = child_key.to_digest(&child_apex, DigestType::SHA256).ok()?;
        let ds = DS::new(child_key.calculate_key_tag().ok()?, Algorithm::ED25519, DigestType::SHA256, digest.as_ref().to_vec());
        let mut pz = hl_zone(3, false);
        pz.names.insert(lbls(&child_apex), [T_NS, T_DS].into_iter().collect());
        // the placeholder DS of `rdata_for` is replaced by the real one (same RRset key: upsert appends, so build without it)
        pz.names.insert(lbls(&child_apex), [T_NS].into_iter().collect());
        let (parent, _) = build_with(&pz, &[Record::from_rdata(child_apex.clone(), 300, RData::DNSSEC(DNSSECRData::DS(ds)))])?;
        let mut inner = CatalogHandle::plain(parent.catalog.clone());
        inner.child = Some((child_apex.clone(), child.catalog.clone()));
        let handle = DnssecDnsHandle::with_trust_anchor(inner, parent.anchors.clone()).nsec3_iteration_limits(soft, hard);
        let (es, eh) = (soft.unwrap_or(100), hard.unwrap_or(500));
        let want = if iterations > eh { "err-nsec-bogus" } else if iterations > es { "err-nsec-insecure" } else { "ok-secure" };
        for (q, t) in [("b.s.z.", T_A), ("a.s.z.", T_TXT)] {
            let got = classify(&send_through(rt, &handle, &Name::from_ascii(q).unwrap(), t, None));
            hl_record(rec, format!("hl limits {} {} {} 2", opt_tok(&soft), opt_tok(&hard), iterations), &got, got == want, format!("handle configured with nsec3_iteration_limits({soft:?}, {hard:?}), signed child zone s.z. with {iterations} NSEC3 iterations below the trust anchor z. (DS + DNSKEY chain), {q} type {t}: DnssecDnsHandle::send gives {got}, expected {want}"), "");
        }
        Some(())
    }

    fn hl_limits(rec: &mut Recorder, rt: &tokio::runtime::Runtime, soft: Option<u16>, hard: Option<u16>, iterations: u16, nested: bool) -> Option<()> {
        let z = hl_zone(iterations, false);
        let srv = build(&z)?;
        let mut inner = CatalogHandle::plain(srv.catalog.clone());
        if nested {
            inner.child = Some(child_catalog());
        }
        let handle = DnssecDnsHandle::with_trust_anchor(inner, srv.anchors.clone()).nsec3_iteration_limits(soft, hard);
        let (es, eh) = (soft.unwrap_or(100), hard.unwrap_or(500));
        let line = format!("hl limits {} {} {} {}", opt_tok(&soft), opt_tok(&hard), iterations, b(nested));
        if nested {
            // the no-DS proof for the insecure delegation c.z. is validated by a nested clone of the handle
            // (request_depth > 0).  Expectation by construction: the outcome depends on the iteration count
            // only through its position relative to the EFFECTIVE limits, so it must equal the outcome of the
            // same scenario under the default limits (100 / 500) with an iteration count in the same position.
            let got = classify(&send_through(rt, &handle, &Name::from_ascii("x.c.z.").unwrap(), T_A, None));
            let pos = if iterations > eh { 2 } else if iterations > es { 1 } else { 0 };
            let want = nested_reference(rt, pos)?;
            hl_record(rec, line, &got, got == want, format!("handle configured with nsec3_iteration_limits({soft:?}, {hard:?}), parent zone signed with {iterations} NSEC3 iterations ({}), unsigned child answer for x.c.z. A through the nested DS lookup: got {got}, expected {want} (what the default limits give for an iteration count in the same position): the configured limits must reach nested clones of the handle", ["within both limits", "above the soft limit", "above the hard limit"][pos]), "");
        } else {
            let want = if iterations > eh { "err-nsec-bogus" } else if iterations > es { "err-nsec-insecure" } else { "ok-secure" };
            for (q, t) in [("b.z.", T_A), ("a.z.", T_TXT)] {
                let got = classify(&send_through(rt, &handle, &Name::from_ascii(q).unwrap(), t, None));
                hl_record(rec, line.clone(), &got, got == want, format!("handle configured with nsec3_iteration_limits({soft:?}, {hard:?}), zone signed with {iterations} NSEC3 iterations, {q} type {t}: DnssecDnsHandle::send gives {got}, expected {want} (effective limits soft {es} / hard {eh})"), "");
            }
        }
        Some(())
    }

    fn hl_config(rec: &mut Recorder, rt: &tokio::runtime::Runtime, field: &str) -> Option<()> {
        let z = hl_zone(3, false);
        let srv = build(&z)?;
        let inner = CatalogHandle::plain(srv.catalog.clone());
        let queries = [("b.z.", T_A), ("a.z.", T_TXT), ("a.z.", T_A)];
        let base = DnssecDnsHandle::with_trust_anchor(inner.clone(), srv.anchors.clone());
        let (handle, depth, must_validate): (DnssecDnsHandle<CatalogHandle>, Option<usize>, Option<bool>) = match field {
            "anchors-wrong" => {
                let other = Ed25519SigningKey::from_pkcs8(&Ed25519SigningKey::generate_pkcs8().ok()?).ok()?;
                let mut ta = TrustAnchors::empty();
                ta.insert(&other.to_public_key().ok()?);
                (DnssecDnsHandle::with_trust_anchor(inner, Arc::new(ta)), None, Some(false))
            }
            "anchors-default" => (DnssecDnsHandle::new(inner), None, Some(false)),
            "cache1" => (base.clone().validation_cache_size(1), None, Some(true)),
            "ttl" => (base.clone().negative_validation_ttl(Duration::from_secs(1)..=Duration::from_secs(2)).positive_validation_ttl(Duration::from_secs(1)..=Duration::from_secs(2)), None, Some(true)),
            "depth0" => (base.clone(), Some(0), Some(false)),
            _ => return None,
        };
        for (q, t) in queries {
            let got = classify(&send_through(rt, &handle, &Name::from_ascii(q).unwrap(), t, depth));
            let ok = match must_validate {
                Some(true) => got == "ok-secure",
                Some(false) => got != "ok-secure",
                None => true,
            };
            hl_record(rec, format!("hl config {field}"), &got, ok, format!("handle with non-default {field}: {q} type {t} gives {got}, expected {}", if must_validate == Some(true) { "ok-secure (as with the defaults)" } else { "anything but a validated answer (no usable trust anchor / no validation depth)" }), "");
        }
        Some(())
    }

    fn hl_inject(rec: &mut Recorder, rt: &tokio::runtime::Runtime, variant: &str) -> Option<()> {
        // zone with an apex wildcard: ANY owner name L.z. has a genuinely signed (wildcard-expanded) A RRset
        let z = hl_zone(2, true);
        let srv = build(&z)?;
        let plain = CatalogHandle::plain(srv.catalog.clone());
        let l_name = Name::from_ascii("00000000000000000000000000000000.z.").unwrap();
        let (apex_nodata, sibling) = rt.block_on(async {
            let mut opts = DnsRequestOptions::default();
            opts.use_edns = true;
            opts.edns_set_dnssec_ok = true;
            let a = plain.send(DnsRequest::from_query(Query::new(z.apex.clone(), RecordType::TXT), opts)).next().await.and_then(|r| r.ok());
            let b_ = plain.send(DnsRequest::from_query(Query::new(l_name.clone(), RecordType::A), opts)).next().await.and_then(|r| r.ok());
            (a, b_)
        });
        let (apex_nodata, sibling) = (apex_nodata?, sibling?);
        // SOA + RRSIG + the apex NSEC3 + RRSIG (genuine, signed): closest encloser z.
        let mut authorities: Vec<Record> = apex_nodata.authorities.to_vec();
        let forged = Record::from_rdata(
            l_name.clone(),
            300,
            RData::DNSSEC(DNSSECRData::NSEC3(NSEC3::new(Nsec3HashAlgorithm::SHA1, false, z.iterations, z.salt.clone(), vec![0xff; 20], Vec::<RecordType>::new()))),
        );
        match variant {
            "forged+sibling" => {
                // the signed wildcard-expanded A RRset of owner L.z. (answer section of `L.z. A`) + the unsigned NSEC3 of the same owner
                authorities.extend(sibling.answers.iter().cloned());
                authorities.push(forged);
            }
            "forged-alone" => authorities.push(forged),
            "genuine-only" => {}
            _ => return None,
        }
        let target = Name::from_ascii("a.z.").unwrap(); // exists, has A
        let tq = target.clone();
        let mutate: Mutator = Arc::new(move |q: &Query, resp: DnsResponse| {
            if q.name == tq && q.query_type == RecordType::A {
                let mut m = resp.into_message();
                m.metadata.response_code = ResponseCode::NXDomain;
                m.answers.clear();
                m.additionals.clear();
                m.authorities = authorities.clone();
                DnsResponse::from_message(m).expect("response")
            } else {
                resp
            }
        });
        let mut inner = CatalogHandle::plain(srv.catalog.clone());
        inner.mutate = Some(mutate);
        let handle = DnssecDnsHandle::with_trust_anchor(inner, srv.anchors.clone());
        let got = classify(&send_through(rt, &handle, &target, T_A, None));
        let ok = got != "ok-secure" && got != "ok-insecure";
        hl_record(
            rec,
            format!("hl inject {variant}"),
            &got,
            ok,
            format!("hostile upstream answers a.z. A (exists) with NXDOMAIN: SOA, the signed apex NSEC3 and an UNSIGNED NSEC3 <L>.z. -> ff.. covering a.z. and *.z. ({variant}); DnssecDnsHandle::send gives {got}, expected an error: an NSEC3 record without a valid signature of its own must not take part in a proof"),
            if variant == "forged+sibling" { CL_INJECT } else { "" },
        );
        Some(())
    }

    pub fn exec_hl(t: &[&str], rec: &mut Recorder) -> Option<()> {
        let rt = tokio::runtime::Builder::new_current_thread().enable_all().build().ok()?;
        let optu = |x: &str| -> Option<Option<u16>> { if x == "-" { Some(None) } else { x.parse::<u16>().ok().map(Some) } };
        match *t.get(1)? {
            "limits" if *t.get(5)? == "2" => hl_limits_chain(rec, &rt, optu(t.get(2)?)?, optu(t.get(3)?)?, t.get(4)?.parse().ok()?),
            "limits" => hl_limits(rec, &rt, optu(t.get(2)?)?, optu(t.get(3)?)?, t.get(4)?.parse().ok()?, *t.get(5)? == "1"),
            "config" => hl_config(rec, &rt, t.get(2)?),
            "inject" => hl_inject(rec, &rt, t.get(2)?),
            _ => None,
        }
    }

    pub fn run_hl(rec: &mut Recorder) {
        let rt = tokio::runtime::Builder::new_current_thread().enable_all().build().unwrap();
        // iterations between the configured and the default limits, in both directions, top level and nested
        let limits: [(Option<u16>, Option<u16>, u16); 11] = [
            (Some(10), None, 15),
            (Some(10), Some(20), 25),
            (None, Some(20), 25),
            (Some(200), None, 150),
            (Some(700), Some(800), 600),
            (Some(10), Some(20), 5),
            (None, None, 15),
            (None, None, 150),
            (None, None, 600),
            (Some(0), Some(0), 0),
            (Some(0), Some(0), 1),
        ];
        for (s_, h_, it) in limits {
            for nested in [false, true] {
                if hl_limits(rec, &rt, s_, h_, it, nested).is_none() {
                    rec.stat("hl.setup-failed");
                }
            }
            if hl_limits_chain(rec, &rt, s_, h_, it).is_none() {
                rec.stat("hl.setup-failed");
            }
        }
        for f in ["anchors-wrong", "anchors-default", "cache1", "ttl", "depth0"] {
            if hl_config(rec, &rt, f).is_none() {
                rec.stat("hl.setup-failed");
            }
        }
        for v in ["forged+sibling", "forged-alone", "genuine-only"] {
            if hl_inject(rec, &rt, v).is_none() {
                rec.stat("hl.setup-failed");
            }
        }
    }

    /// the zone data as a zone view (empty non-terminals added)
    fn spec_view(z: &ZoneSpec) -> Zone {
        let apex = lbls(&z.apex);
        let mut v: Zone = z.names.clone();
        for n in z.names.keys() {
            let mut k = n.len();
            while k > apex.len() + 1 {
                k -= 1;
                v.entry(suffix(n, k)).or_default();
            }
        }
        v
    }

    fn describe_spec(z: &ZoneSpec) -> String {
        format!("[optout={} iter={} salt={}] {}", z.opt_out, z.iterations, hex(&z.salt), describe(&z.names))
    }
}
