//! Message-level case lines shared by C02 and C03 (stage 2).  A message is given as the hex of its
//! wire bytes; it is decoded with the real `Message::from_vec` and re-encoded with the real
//! `Message::emit` (the Lean driver `Drv/MsgEmit.lean` does the same with the two models).
//!
//!   msg  <hex> <L1,L2,…>          `Message::emit` into a fresh Vec under `set_max_size(L)` for each L
//!   resp <udp|tcp> <adv|-> <hex>  `ResponseHandle::send_response` → `MessageResponse::encode(protocol)`:
//!                                 the bytes handed to the `BufDnsStreamHandle`, for a request that
//!                                 advertised EDNS payload `adv` (`-` = no EDNS)
//!   rt   <hex>                    `from_vec` → `to_vec` → `from_vec`
//!   rtok / undec <hex>            as `rt`, but the octets MUST decode / MUST be refused
//!   asm  <hex> <hash>             a message assembled from values must decode, after encoding, to itself
//!   svcbenc / ednsrc / tsnew      values built through the public constructors, encoded (see the arms)
//!   respb <how> <udp|tcp> <adv|-> <hex>   `resp` through the other builder entry points (`run_resp_bytes`)
//!   badrec <kind> <sec> <nb> <na> <L<limit>|udp:<adv>|tcp:<adv>>   a message holding a record that cannot be
//!                                 encoded for a reason other than size (`bad_message`)
//!   cat <proto> <adv|-> <DO> <version> <nsid|-> <nrec> <rlen> <qname> <qtype> <op>   the whole server path
//!                                 through the real `Catalog::handle_request` (`run_catalog`; implementation only)
use std::net::SocketAddr;

use futures_util::{FutureExt, StreamExt};
use hickory_net::xfer::Protocol;
use hickory_net::BufDnsStreamHandle;
use hickory_proto::op::{Edns, Header, Message, Query};
use hickory_proto::dnssec::rdata::DNSSECRData;
use hickory_proto::rr::{RData, Record};
use hickory_proto::serialize::binary::{BinDecodable, BinDecoder, BinEncodable, BinEncoder};
use hickory_proto::ProtoError;
use hickory_server::server::{Request, ResponseHandle, ResponseHandler};
use hickory_server::zone_handler::MessageResponseBuilder;

use crate::common::*;
use crate::props::c01::{show_edns, show_message, show_query, show_record, show_sig};

/// RDATA variants whose emitter has a Lean model (must equal `RData.emitModelled`)
pub fn rdata_modelled(d: &RData) -> bool {
    matches!(
        d,
        RData::A(_)
            | RData::AAAA(_)
            | RData::NS(_)
            | RData::CNAME(_)
            | RData::PTR(_)
            | RData::ANAME(_)
            | RData::MX(_)
            | RData::SOA(_)
            | RData::TXT(_)
            | RData::SRV(_)
            | RData::HINFO(_)
            | RData::NULL(_)
            | RData::Unknown { .. }
            | RData::OPT(_)
            | RData::Update0(_)
            | RData::ZERO
            | RData::TSIG(_)
            | RData::DNSSEC(DNSSECRData::DS(_))
            | RData::DNSSEC(DNSSECRData::CDS(_))
            | RData::DNSSEC(DNSSECRData::DNSKEY(_))
            | RData::DNSSEC(DNSSECRData::CDNSKEY(_))
            | RData::DNSSEC(DNSSECRData::NSEC3PARAM(_))
            | RData::TLSA(_)
            | RData::SMIMEA(_)
            | RData::SSHFP(_)
            | RData::OPENPGPKEY(_)
            | RData::CERT(_)
            | RData::CAA(_)
            | RData::DNSSEC(DNSSECRData::KEY(_))
            | RData::DNSSEC(DNSSECRData::SIG(_))
            | RData::DNSSEC(DNSSECRData::RRSIG(_))
            | RData::NAPTR(_)
            | RData::DNSSEC(DNSSECRData::NSEC(_))
            | RData::DNSSEC(DNSSECRData::NSEC3(_))
            | RData::CSYNC(_)
            | RData::SVCB(_)
            | RData::HTTPS(_)
    )
}

pub fn msg_modelled(m: &Message) -> bool {
    m.answers.iter().chain(m.authorities.iter()).chain(m.additionals.iter()).all(|r| rdata_modelled(&r.data))
}

/// what an assembled message is compared by: the canonical dump plus the `ResponseCode` variant
/// (the dump prints the code as a number, under which BADVERS and BADSIG coincide)
pub fn asm_dump(m: &Message) -> String {
    format!("{}|{:?}", show_message(m), m.metadata.response_code)
}

pub fn fnv1a(b: &[u8]) -> u64 {
    let mut h: u64 = 14695981039346656037;
    for x in b {
        h = (h ^ (*x as u64)).wrapping_mul(1099511628211);
    }
    h
}

pub fn emit_limited(m: &Message, limit: u16) -> Result<Vec<u8>, ProtoError> {
    let mut buf = Vec::new();
    {
        let mut enc = BinEncoder::new(&mut buf);
        enc.set_max_size(limit);
        m.emit(&mut enc)?;
    }
    Ok(buf)
}

fn recs(rs: &[Record]) -> Vec<String> {
    rs.iter().map(show_record).collect()
}

fn is_prefix(a: &[String], b: &[String]) -> bool {
    a.len() <= b.len() && a.iter().zip(b.iter()).all(|(x, y)| x == y)
}

/// the C03 clauses on one output, stated on the implementation's own decoder
/// (independent of the model).  Returns whether anything was dropped.
pub fn judge_truncation(orig: &Message, out: &[u8], limit: usize, what: &str, fails: &mut Vec<String>) -> bool {
    if out.len() > limit {
        fails.push(format!("{what}: {} octets exceed the limit {limit}", out.len()));
    }
    let mut d = BinDecoder::new(out);
    let dec = match Message::read(&mut d) {
        Ok(m) => m,
        Err(e) => {
            fails.push(format!("{what}: output under limit {limit} does not decode: {e}"));
            return false;
        }
    };
    if !d.is_empty() {
        fails.push(format!("{what}: {} octets left over after decoding the output under limit {limit}", d.len()));
    }
    // header counts as they stand in the bytes = records present
    if out.len() >= 12 {
        let c = |i: usize| u16::from_be_bytes([out[i], out[i + 1]]) as usize;
        let ar = dec.additionals.len() + dec.edns.is_some() as usize + dec.signature.is_some() as usize;
        if c(4) != dec.queries.len() || c(6) != dec.answers.len() || c(8) != dec.authorities.len() || c(10) != ar {
            fails.push(format!("{what}: header counts differ from the records present (limit {limit})"));
        }
    }
    let q0: Vec<String> = orig.queries.iter().map(show_query).collect();
    let q1: Vec<String> = dec.queries.iter().map(show_query).collect();
    if q0 != q1 {
        fails.push(format!("{what}: question section changed (limit {limit})"));
    }
    let mut dropped = false;
    for (name, a, b) in [
        ("answer", &dec.answers, &orig.answers),
        ("authority", &dec.authorities, &orig.authorities),
        ("additional", &dec.additionals, &orig.additionals),
    ] {
        let (x, y) = (recs(a), recs(b));
        if !is_prefix(&x, &y) {
            fails.push(format!("{what}: {name} section is not a prefix of the original (limit {limit})"));
        }
        dropped |= x.len() < y.len();
    }
    match (&dec.edns, &orig.edns) {
        (Some(_), None) => fails.push(format!("{what}: an OPT record appeared (limit {limit})")),
        (None, Some(_)) => dropped = true,
        (Some(a), Some(b)) => {
            // rcode_high is re-derived from the header on emit; everything else must be the same
            let (mut a, mut b): (Edns, Edns) = (a.clone(), b.clone());
            a.set_rcode_high(0);
            b.set_rcode_high(0);
            if show_edns(Some(&a)) != show_edns(Some(&b)) {
                fails.push(format!("{what}: EDNS changed (limit {limit})"));
            }
        }
        (None, None) => {}
    }
    match (&dec.signature, &orig.signature) {
        (Some(_), None) => fails.push(format!("{what}: a TSIG record appeared (limit {limit})")),
        (None, Some(_)) => dropped = true,
        (Some(a), Some(b)) => {
            if show_sig(Some(&**a)) != show_sig(Some(&**b)) {
                fails.push(format!("{what}: TSIG changed (limit {limit})"));
            }
        }
        (None, None) => {}
    }
    let want_tc = orig.metadata.truncation || dropped;
    if dec.metadata.truncation != want_tc {
        fails.push(format!(
            "{what}: TC is {} but must be {} (original TC {}, record dropped: {dropped}; limit {limit})",
            dec.metadata.truncation, want_tc, orig.metadata.truncation
        ));
    }
    dropped
}

pub struct MsgVerdict {
    pub out: String,
    pub fails: Vec<String>,
    /// known-finding class of the failures ("" = none)
    pub class: &'static str,
    pub n_limits: usize,
    pub n_truncated: usize,
    pub n_err: usize,
    pub n_full: usize,
    pub kind: &'static str,
    pub len: usize,
}

fn run_resp(rt: &tokio::runtime::Runtime, m: &Message, proto: Protocol, adv: Option<u16>, how: &str) -> Result<Option<Vec<u8>>, String> {
    // the request the response answers: same id and question, EDNS payload `adv`
    let mut req = Message::query();
    req.metadata.id = m.metadata.id;
    req.metadata.recursion_desired = m.metadata.recursion_desired;
    for q in &m.queries {
        req.add_query(q.clone());
    }
    if let Some(p) = adv {
        // written by hand: `Edns::set_max_payload` would clamp the advertised value
        let mut bytes = req.to_vec().map_err(|e| e.to_string())?;
        bytes.extend([0u8, 0, 41]);
        bytes.extend(p.to_be_bytes());
        bytes.extend([0u8, 0, 0, 0, 0, 0]);
        bytes[11] = 1;
        return run_resp_bytes(rt, m, proto, bytes, how);
    }
    let bytes = req.to_vec().map_err(|e| e.to_string())?;
    run_resp_bytes(rt, m, proto, bytes, how)
}

/// `how` selects the public way the `MessageResponse` is put together: `std` (`from_message_request` +
/// `build` + `set_edns`), `new` (`MessageResponseBuilder::new(queries, edns)`), `edns` (the builder's
/// `edns()` setter), `noq` (`no_queries`), `norec` (`build_no_records`), `noq-norec`, `errmsg:<code>`
/// (`error_msg(request metadata, code)`), `noq-errmsg:<code>`
fn run_resp_bytes(rt: &tokio::runtime::Runtime, m: &Message, proto: Protocol, req_bytes: Vec<u8>, how: &str) -> Result<Option<Vec<u8>>, String> {
    let src: SocketAddr = "127.0.0.1:5353".parse().unwrap();
    let request = Request::from_bytes(req_bytes, src, proto).map_err(|e| format!("request: {e}"))?;
    // what `Catalog::handle_request` does with the request's EDNS (zone_handler/catalog.rs)
    let resp_edns = request.edns.as_ref().map(|req_edns| {
        let mut e = Edns::new();
        e.set_dnssec_ok(req_edns.flags().dnssec_ok);
        e.set_max_payload(req_edns.max_payload().max(512));
        e.set_version(0);
        e
    });
    let (handle, mut rx) = BufDnsStreamHandle::new(src);
    let mut rh = ResponseHandle::new(src, handle, proto);
    let none = || std::iter::empty::<&Record>();
    // (every arm builds a different concrete `MessageResponse` type, so each sends its own)
    macro_rules! send {
        ($resp:expr, $set_edns:expr) => {{
            let mut response = $resp;
            if $set_edns {
                if let Some(e) = resp_edns.as_ref() {
                    response.set_edns(e);
                }
            }
            if let Some(sig) = &m.signature {
                response.set_signature(sig.clone());
            }
            rt.block_on(async {
                let r = rh.send_response(response).await;
                r.is_ok()
            })
        }};
    }
    let (base, code) = match how.split_once(':') {
        Some((b, c)) => (b, c.parse::<u16>().map_err(|e| e.to_string())?),
        None => (how, 0),
    };
    let rc = hickory_proto::op::ResponseCode::from((code >> 4) as u8, (code & 15) as u8);
    let ok = match base {
        "std" => send!(MessageResponseBuilder::from_message_request(&request).build(m.metadata, m.answers.iter(), m.authorities.iter(), none(), m.additionals.iter()), true),
        "new" => send!(MessageResponseBuilder::new(&request.queries, resp_edns.as_ref()).build(m.metadata, m.answers.iter(), m.authorities.iter(), none(), m.additionals.iter()), false),
        "edns" => {
            let mut b = MessageResponseBuilder::from_message_request(&request);
            if let Some(e) = resp_edns.as_ref() {
                b.edns(e);
            }
            send!(b.build(m.metadata, m.answers.iter(), m.authorities.iter(), none(), m.additionals.iter()), false)
        }
        // the authority section handed over as `soa` (the fourth iterator is chained behind the authorities)
        "soa" => send!(MessageResponseBuilder::from_message_request(&request).build(m.metadata, m.answers.iter(), none(), m.authorities.iter(), m.additionals.iter()), true),
        "noq" => send!(MessageResponseBuilder::no_queries(resp_edns.as_ref()).build(m.metadata, m.answers.iter(), m.authorities.iter(), none(), m.additionals.iter()), false),
        "norec" => send!(MessageResponseBuilder::from_message_request(&request).build_no_records(m.metadata), true),
        "noq-norec" => send!(MessageResponseBuilder::no_queries(resp_edns.as_ref()).build_no_records(m.metadata), false),
        "errmsg" => send!(MessageResponseBuilder::from_message_request(&request).error_msg(&request.metadata, rc), true),
        "noq-errmsg" => send!(MessageResponseBuilder::no_queries(resp_edns.as_ref()).error_msg(&request.metadata, rc), false),
        _ => return Err(format!("unknown response builder variant {how}")),
    };
    drop(rh);
    let mut out = vec![];
    while let Some(Some(x)) = rx.next().now_or_never() {
        out.push(x.into_parts().0);
    }
    let sent = (ok, out);
    match sent {
        (true, mut v) if v.len() == 1 => Ok(Some(v.remove(0))),
        (false, v) if v.is_empty() => Ok(None),
        (ok, v) => Err(format!("send_response ok={ok} but {} messages were handed to the stream", v.len())),
    }
}

thread_local! {
    static RT: tokio::runtime::Runtime = tokio::runtime::Builder::new_current_thread().enable_all().build().unwrap();
}

/// One response through `ResponseHandle::send_response`, judged: never longer than the property's bound
/// (UDP max(512, advertised), TCP 65535), decodes with nothing left over, and is either the header-only
/// SERVFAIL of the fallback path or a truncation of what the builder variant `how` was given.
fn resp_case(m: &Message, how: &str, proto: &str, adv: Option<u16>, fails: &mut Vec<String>) -> Option<(String, (usize, usize, usize))> {
    let (p, tcp) = match proto {
        "udp" => (Protocol::Udp, false),
        "tcp" => (Protocol::Tcp, true),
        _ => return None,
    };
    // the property's bound: UDP max(512, advertised), TCP 65535
    let bound = if tcp { 65535 } else { adv.map(|a| a.max(512) as usize).unwrap_or(512) };
    let r = RT.with(|rt| run_resp(rt, m, p, adv, how));
    let (mut n_tr, mut n_err, mut n_full) = (0, 0, 0);
    let out = match r {
        Ok(Some(b)) => {
            if b.len() > bound {
                fails.push(format!("server sent {} octets over {proto}, more than {bound}", b.len()));
            }
            // the response the client must be able to read: same clauses as for Message::emit,
            // against the response's content (EDNS is the server's own)
            let mut want = m.clone();
            // the EDNS of the response is the server's own, derived from the request's
            want.edns = adv.map(|a| {
                let mut e = Edns::new();
                e.set_max_payload(a.max(512));
                e
            });
            let base = how.split(':').next().unwrap_or("");
            if base.starts_with("noq") {
                want.queries.clear();
            }
            if base.ends_with("norec") || base.ends_with("errmsg") {
                want.answers.clear();
                want.authorities.clear();
                want.additionals.clear();
            }
            if base.ends_with("errmsg") {
                // Metadata::response_from_request(request) + the code; the request is the one `run_resp` makes
                let code: u16 = how.split(':').nth(1).and_then(|c| c.parse().ok()).unwrap_or(0);
                let mut md = hickory_proto::op::Metadata::new(m.metadata.id, hickory_proto::op::MessageType::Response, hickory_proto::op::OpCode::Query);
                md.recursion_desired = m.metadata.recursion_desired;
                md.response_code = hickory_proto::op::ResponseCode::from((code >> 4) as u8, (code & 15) as u8);
                want.metadata = md;
                if let Some(e) = want.edns.as_mut() {
                    e.set_rcode_high((code >> 4) as u8);
                }
                if want.edns.is_none() {
                    // without an OPT record the high bits cannot be carried
                    want.metadata.response_code = hickory_proto::op::ResponseCode::from(0, (code & 15) as u8);
                }
            }
            let mut d = BinDecoder::new(&b);
            match Message::read(&mut d) {
                Ok(dec) => {
                    if !d.is_empty() {
                        fails.push(format!("{} octets left over after decoding the response", d.len()));
                    }
                    let is_fallback = b.len() == 12 && dec.metadata.response_code == hickory_proto::op::ResponseCode::ServFail && dec.metadata.id == m.metadata.id && !(want.queries.is_empty() && want.metadata.response_code == hickory_proto::op::ResponseCode::ServFail);
                    if is_fallback {
                        n_err += 1;
                    } else if judge_truncation(&want, &b, bound, "MessageResponse::encode", fails) {
                        n_tr += 1;
                    } else {
                        n_full += 1;
                    }
                }
                Err(e) => fails.push(format!("response does not decode: {e}")),
            }
            format!("ok {}", hex(&b))
        }
        Ok(None) => {
            n_err += 1;
            "err".into()
        }
        Err(e) => {
            fails.push(e);
            "err".into()
        }
    };
    Some((out, (n_tr, n_err, n_full)))
}

/// The typed views of a record (`RecordData::{try_borrow, record_type, into_rdata}` of every RDATA type,
/// `Record::try_borrow`, `RecordRef::to_owned`, `Record<T>::into_record_of_rdata`, and `Record<T>::emit`,
/// which takes the TYPE field from `T::record_type()`): the typed record is the same record and encodes
/// to the same octets as the generic one.
fn typed_views(r: &Record, fails: &mut Vec<String>) {
    use hickory_proto::dnssec::rdata::{CDNSKEY, CDS, DNSKEY, DS, KEY, NSEC, NSEC3, NSEC3PARAM, RRSIG, SIG};
    use hickory_proto::rr::rdata::{A, AAAA, ANAME, CAA, CERT, CNAME, CSYNC, HINFO, HTTPS, MX, NAPTR, NS, NULL, OPENPGPKEY, PTR, SMIMEA, SOA, SRV, SSHFP, SVCB, TLSA, TXT};
    use hickory_proto::rr::RecordData;
    fn check<T: RecordData + Clone + PartialEq + std::fmt::Debug>(x: &T, r: &Record, fails: &mut Vec<String>) {
        let what = r.record_type();
        if T::try_borrow(&r.data) != Some(x) {
            fails.push(format!("{what}: RecordData::try_borrow does not give the variant's value"));
        }
        if x.record_type() != what {
            fails.push(format!("{what}: the typed value reports record type {}", x.record_type()));
        }
        if x.clone().into_rdata() != r.data {
            fails.push(format!("{what}: into_rdata() differs from the RData it was borrowed from"));
        }
        match r.try_borrow::<T>() {
            Some(view) => {
                if view.name() != &r.name || view.dns_class() != r.dns_class || view.data() != x {
                    fails.push(format!("{what}: RecordRef differs from the record"));
                }
                let typed: Record<T> = view.to_owned();
                let (mut a, mut b) = (vec![], vec![]);
                let ra = typed.emit(&mut BinEncoder::new(&mut a));
                let rb = r.emit(&mut BinEncoder::new(&mut b));
                if ra.is_ok() != rb.is_ok() || a != b {
                    fails.push(format!("{what}: the typed record encodes to {} but the generic one to {}", hex(&a), hex(&b)));
                }
                if &typed.into_record_of_rdata() != r {
                    fails.push(format!("{what}: into_record_of_rdata() differs from the record"));
                }
            }
            None => fails.push(format!("{what}: Record::try_borrow::<T>() is None")),
        }
    }
    match &r.data {
        RData::A(x) => check::<A>(x, r, fails),
        RData::AAAA(x) => check::<AAAA>(x, r, fails),
        RData::ANAME(x) => check::<ANAME>(x, r, fails),
        RData::CAA(x) => check::<CAA>(x, r, fails),
        RData::CERT(x) => check::<CERT>(x, r, fails),
        RData::CNAME(x) => check::<CNAME>(x, r, fails),
        RData::CSYNC(x) => check::<CSYNC>(x, r, fails),
        RData::HINFO(x) => check::<HINFO>(x, r, fails),
        RData::HTTPS(x) => check::<HTTPS>(x, r, fails),
        RData::MX(x) => check::<MX>(x, r, fails),
        RData::NAPTR(x) => check::<NAPTR>(x, r, fails),
        RData::NULL(x) => check::<NULL>(x, r, fails),
        RData::NS(x) => check::<NS>(x, r, fails),
        RData::OPENPGPKEY(x) => check::<OPENPGPKEY>(x, r, fails),
        RData::PTR(x) => check::<PTR>(x, r, fails),
        RData::SMIMEA(x) => check::<SMIMEA>(x, r, fails),
        RData::SOA(x) => check::<SOA>(x, r, fails),
        RData::SRV(x) => check::<SRV>(x, r, fails),
        RData::SSHFP(x) => check::<SSHFP>(x, r, fails),
        RData::SVCB(x) => check::<SVCB>(x, r, fails),
        RData::TLSA(x) => check::<TLSA>(x, r, fails),
        RData::TXT(x) => check::<TXT>(x, r, fails),
        RData::DNSSEC(DNSSECRData::CDNSKEY(x)) => check::<CDNSKEY>(x, r, fails),
        RData::DNSSEC(DNSSECRData::CDS(x)) => check::<CDS>(x, r, fails),
        RData::DNSSEC(DNSSECRData::DNSKEY(x)) => check::<DNSKEY>(x, r, fails),
        RData::DNSSEC(DNSSECRData::DS(x)) => check::<DS>(x, r, fails),
        RData::DNSSEC(DNSSECRData::KEY(x)) => check::<KEY>(x, r, fails),
        RData::DNSSEC(DNSSECRData::NSEC(x)) => check::<NSEC>(x, r, fails),
        RData::DNSSEC(DNSSECRData::NSEC3(x)) => check::<NSEC3>(x, r, fails),
        RData::DNSSEC(DNSSECRData::NSEC3PARAM(x)) => check::<NSEC3PARAM>(x, r, fails),
        RData::DNSSEC(DNSSECRData::RRSIG(x)) => check::<RRSIG>(x, r, fails),
        RData::DNSSEC(DNSSECRData::SIG(x)) => check::<SIG>(x, r, fails),
        _ => {}
    }
}

/// One request through the real `Catalog::handle_request` (zone_handler/catalog.rs) over an in-memory
/// zone `example.com.` that holds, besides SOA / NS / glue / `www`, `nrec` TXT records of `rlen` octets at
/// `big.example.com.`; `nsid` = length of the configured NSID payload (the request then asks for it).
/// Returns the octets handed to the stream.
#[allow(clippy::too_many_arguments)]
fn run_catalog(proto: Protocol, adv: Option<u16>, dok: bool, ver: u8, nsid: Option<usize>, nrec: usize, rlen: usize, q: &str, qtype: u16, op: &str) -> Result<Vec<Vec<u8>>, String> {
    use hickory_net::runtime::{TokioRuntimeProvider, TokioTime};
    use hickory_proto::rr::rdata::opt::NSIDPayload;
    use hickory_proto::rr::rdata::{A, NS, SOA, TXT};
    use hickory_proto::rr::{LowerName, Name};
    use hickory_server::server::RequestHandler;
    use hickory_server::store::in_memory::InMemoryZoneHandler;
    use hickory_server::zone_handler::{AxfrPolicy, Catalog, ZoneHandler, ZoneType};
    use std::sync::Arc;
    let nm = |s: &str| Name::from_ascii(s).unwrap();
    let o = nm("example.com.");
    let mut z = InMemoryZoneHandler::<TokioRuntimeProvider>::empty(o.clone(), ZoneType::Primary, AxfrPolicy::AllowAll, None);
    z.upsert_mut(Record::from_rdata(o.clone(), 3600, RData::SOA(SOA::new(nm("ns.example.com."), nm("admin.example.com."), 20260101, 7200, 3600, 360000, 60))), 0);
    z.upsert_mut(Record::from_rdata(o.clone(), 3600, RData::NS(NS(nm("ns.example.com.")))), 0);
    z.upsert_mut(Record::from_rdata(nm("ns.example.com."), 3600, RData::A(A::new(192, 0, 2, 1))), 0);
    z.upsert_mut(Record::from_rdata(nm("www.example.com."), 300, RData::A(A::new(192, 0, 2, 80))), 0);
    // a delegation (referral) and a wildcard
    z.upsert_mut(Record::from_rdata(nm("sub.example.com."), 3600, RData::NS(NS(nm("ns.sub.example.com.")))), 0);
    z.upsert_mut(Record::from_rdata(nm("ns.sub.example.com."), 3600, RData::A(A::new(192, 0, 2, 53))), 0);
    z.upsert_mut(Record::from_rdata(nm("*.wild.example.com."), 300, RData::TXT(TXT::from_bytes(vec![&b"wildcard"[..]]))), 0);
    for i in 0..nrec {
        let mut d = vec![b'a' + (i % 26) as u8; rlen];
        if rlen >= 2 {
            d[0] = (i >> 8) as u8;
            d[1] = i as u8;
        }
        z.upsert_mut(Record::from_rdata(nm("big.example.com."), 300, RData::TXT(TXT::from_bytes(vec![&d[..]]))), 0);
    }
    let mut catalog = Catalog::new();
    let h: Arc<dyn ZoneHandler> = Arc::new(z);
    catalog.upsert(LowerName::new(&o), vec![h]);
    if let Some(n) = nsid {
        catalog.set_nsid(Some(NSIDPayload::new(vec![0x4E; n]).map_err(|e| e.to_string())?));
    }
    // the request, written by hand
    let qname: Vec<u8> = match q {
        "big" => b"\x03big\x07example\x03com\x00".to_vec(),
        "www" => b"\x03www\x07example\x03com\x00".to_vec(),
        "nx" => b"\x04nope\x07example\x03com\x00".to_vec(),
        "apex" => b"\x07example\x03com\x00".to_vec(),
        "out" => b"\x05other\x03org\x00".to_vec(),
        "ref" => b"\x01x\x03sub\x07example\x03com\x00".to_vec(),
        "wild" => b"\x01x\x04wild\x07example\x03com\x00".to_vec(),
        _ => return Err("unknown query name".into()),
    };
    let (qr, opcode): (u8, u8) = match op {
        "q" => (0, 0),
        "u" => (0, 5),
        "s" => (0, 2),
        "n" => (0, 4),
        "r" => (1, 0),
        _ => return Err("unknown op".into()),
    };
    let mut b = vec![0x51, 0x51, (qr << 7) | (opcode << 3) | 1, 0, 0, 1, 0, 0, 0, 0, 0, adv.is_some() as u8];
    b.extend(&qname);
    b.extend(qtype.to_be_bytes());
    b.extend([0, 1]);
    if let Some(a) = adv {
        b.extend([0, 0, 41]);
        b.extend(a.to_be_bytes());
        b.extend([0, ver, (dok as u8) << 7, 0]);
        if nsid.is_some() {
            b.extend([0, 4, 0, 3, 0, 0]);
        } else {
            b.extend([0, 0]);
        }
    }
    let src: SocketAddr = "127.0.0.1:5353".parse().unwrap();
    let request = Request::from_bytes(b, src, proto).map_err(|e| format!("request: {e}"))?;
    let (handle, mut rx) = BufDnsStreamHandle::new(src);
    let rh = ResponseHandle::new(src, handle, proto);
    RT.with(|rt| rt.block_on(catalog.handle_request::<_, TokioTime>(&request, rh)));
    let mut out = vec![];
    while let Some(Some(x)) = rx.next().now_or_never() {
        out.push(x.into_parts().0);
    }
    Ok(out)
}

/// The message of a `badrec` line: id 0x4242, a response to `example. A`, `nb` encodable A records
/// (`g<i>.example.`), the record of `kind` (owner `bad.example.`), `na` more A records, all in section
/// `sec` (`an` / `ns` / `ar`); for `sec = sig` the record is the message's TSIG (`tsigtime`, `tsigmac`,
/// `tsigother`, `good`) and the A records go to the answer section.
pub fn bad_message(kind: &str, sec: &str, nb: usize, na: usize) -> Option<Message> {
    use hickory_proto::op::{MessageType, OpCode};
    use hickory_proto::rr::rdata::svcb::{Alpn, SvcParamKey, SvcParamValue, SVCB};
    use hickory_proto::rr::rdata::tsig::{TsigAlgorithm, TSIG};
    use hickory_proto::rr::rdata::{A, CAA, HINFO, NAPTR, TXT};
    use hickory_proto::rr::{DNSClass, Name, RecordType};
    let nm = |s: &str| Name::from_ascii(s).unwrap();
    let mut m = Message::new(0x4242, MessageType::Response, OpCode::Query);
    m.add_query(Query::new(nm("example."), RecordType::A));
    let good = |i: usize| Record::from_rdata(nm(&format!("g{i}.example.")), 60, RData::A(A::new(192, 0, 2, i as u8)));
    let long = vec![b'x'; 256];
    if sec == "sig" {
        let (time, mac, other): (u64, usize, usize) = match kind {
            "tsigtime" => (1 << 48, 4, 0),
            "tsigmac" => (1, 65536, 0),
            "tsigother" => (1, 4, 65536),
            "good" => ((1 << 48) - 1, 4, 0),
            _ => return None,
        };
        for i in 0..nb + na {
            m.add_answer(good(i));
        }
        let t = TSIG::new(TsigAlgorithm::HmacSha256, time, 300, vec![0xAB; mac], 0x4242, None, vec![0xCD; other]);
        let mut sig = Record::from_rdata(nm("key.example."), 0, t);
        sig.dns_class = DNSClass::ANY;
        m.set_signature(Box::new(sig));
        return Some(m);
    }
    let bad: RData = match kind {
        "good" => RData::A(A::new(203, 0, 113, 1)),
        "txt256" => RData::TXT(TXT::from_bytes(vec![&b"ok"[..], &long[..]])),
        "hinfo256" => RData::HINFO(HINFO::from_bytes(long.clone().into_boxed_slice(), b"os".to_vec().into_boxed_slice())),
        "naptr256" => RData::NAPTR(NAPTR::new(1, 2, b"U".to_vec().into_boxed_slice(), long.clone().into_boxed_slice(), vec![].into_boxed_slice(), nm("r.example."))),
        "caatag256" => {
            // (non-exhaustive struct: made by a constructor, then the public field is changed)
            let mut c = CAA::new_issue(false, None, vec![]);
            c.tag = "t".repeat(256);
            RData::CAA(c)
        }
        "svcborder" => RData::SVCB(SVCB::new(1, nm("t.example."), vec![(SvcParamKey::Port, SvcParamValue::Port(443)), (SvcParamKey::Alpn, SvcParamValue::Alpn(Alpn(vec!["h2".to_string()])))])),
        "alpn0" => RData::SVCB(SVCB::new(1, nm("t.example."), vec![(SvcParamKey::Alpn, SvcParamValue::Alpn(Alpn(vec![])))])),
        "mandatory0" => RData::SVCB(SVCB::new(1, nm("t.example."), vec![(SvcParamKey::Mandatory, SvcParamValue::Mandatory(hickory_proto::rr::rdata::svcb::Mandatory(vec![])))])),
        _ => return None,
    };
    let mut recs: Vec<Record> = (0..nb).map(good).collect();
    recs.push(Record::from_rdata(nm("bad.example."), 60, bad));
    recs.extend((nb..nb + na).map(good));
    match sec {
        "an" => {
            m.insert_answers(recs);
        }
        "ns" => {
            m.insert_authorities(recs);
        }
        "ar" => {
            m.insert_additionals(recs);
        }
        _ => return None,
    }
    Some(m)
}

pub fn run_line(t: &[&str]) -> Option<MsgVerdict> {
    let mut fails = vec![];
    match t {
        ["rtok", hx] => {
            // as `rt`, but these octets MUST decode
            match run_line(&["rt", hx]) {
                Some(mut v) => {
                    v.kind = "rtok";
                    Some(v)
                }
                None => {
                    fails.push("does not decode although it must (a valid encoding)".into());
                    Some(MsgVerdict { out: "undecodable".into(), fails, class: "", n_limits: 0, n_truncated: 0, n_err: 1, n_full: 0, kind: "rtok", len: hx.len() / 2 })
                }
            }
        }
        ["svcbenc", ty, keys] => {
            // an SVCB / HTTPS value built from its parts through the public constructors, encoded:
            // strictly increasing keys (numeric wire value) must encode and decode back to the same
            // value; any other order must be refused by the encoder
            use hickory_proto::rr::rdata::svcb::{Alpn, EchConfigList, IpHint, Mandatory, SvcParamKey, SvcParamValue, Unknown, SVCB};
            use hickory_proto::rr::rdata::{A, AAAA, HTTPS};
            let ty: u16 = ty.parse().ok()?;
            let ks: Vec<u16> = if *keys == "-" { vec![] } else { keys.split(',').map(|x| x.parse().ok()).collect::<Option<_>>()? };
            let val = |k: u16| -> SvcParamValue {
                match k {
                    0 => SvcParamValue::Mandatory(Mandatory(vec![SvcParamKey::Alpn])),
                    1 => SvcParamValue::Alpn(Alpn(vec!["h2".to_string()])),
                    2 => SvcParamValue::NoDefaultAlpn,
                    3 => SvcParamValue::Port(443),
                    4 => SvcParamValue::Ipv4Hint(IpHint(vec![A::new(192, 0, 2, 1)])),
                    5 => SvcParamValue::EchConfigList(EchConfigList(vec![1, 2, 3])),
                    6 => SvcParamValue::Ipv6Hint(IpHint(vec![AAAA::new(0x2001, 0xdb8, 0, 0, 0, 0, 0, 1)])),
                    _ => SvcParamValue::Unknown(Unknown(vec![(k % 256) as u8, 7])),
                }
            };
            let svcb = SVCB::new(1, hickory_proto::rr::Name::root(), ks.iter().map(|k| (SvcParamKey::from(*k), val(*k))).collect());
            let d = if ty == 65 { RData::HTTPS(HTTPS(svcb)) } else { RData::SVCB(svcb) };
            let mut buf = Vec::new();
            let res = {
                let mut enc = BinEncoder::new(&mut buf);
                d.emit(&mut enc)
            };
            let increasing = ks.windows(2).all(|w| w[0] < w[1]);
            let out = match res {
                Ok(()) => {
                    if !increasing {
                        fails.push(format!("SVCB with keys {ks:?} (not strictly increasing) was encoded"));
                    }
                    match RData::read(BinDecoder::new(&buf), hickory_proto::rr::RecordType::from(ty)) {
                        Ok(back) => {
                            if crate::props::c01::show_record(&Record::from_rdata(hickory_proto::rr::Name::root(), 0, back))
                                != crate::props::c01::show_record(&Record::from_rdata(hickory_proto::rr::Name::root(), 0, d.clone()))
                            {
                                fails.push(format!("SVCB with keys {ks:?} decodes, after encoding, to a different value"));
                            }
                        }
                        Err(e) => {
                            if increasing {
                                fails.push(format!("SVCB with keys {ks:?} (strictly increasing) does not decode after encoding: {e}"))
                            }
                        }
                    }
                    format!("ok {}", hex(&buf))
                }
                Err(e) => {
                    if increasing {
                        fails.push(format!("SVCB with strictly increasing keys {ks:?} was refused by the encoder: {e}"));
                    }
                    "err".into()
                }
            };
            Some(MsgVerdict { out, fails, class: "", n_limits: 0, n_truncated: 0, n_err: 0, n_full: 1, kind: "svcbenc", len: buf.len() })
        }
        ["ednsrc", via, low, high, stale, version, dok, z, payload] => {
            // the Edns VALUE carries `stale` as rcode_high; the message's response code is (high, low):
            // decode(encode m) must give the message's response code, and every other Edns field back
            use hickory_proto::op::{MessageType, OpCode, ResponseCode};
            let (low, high, stale, version): (u8, u8, u8, u8) = (low.parse().ok()?, high.parse().ok()?, stale.parse().ok()?, version.parse().ok()?);
            let (z, payload): (u16, u16) = (z.parse().ok()?, payload.parse().ok()?);
            let dok = *dok == "1";
            let mut e = if *via == "d" {
                // an Edns taken from a decoded message whose extended response code had `stale` as high bits
                let mut first = Message::new(1, MessageType::Response, OpCode::Query);
                first.metadata.response_code = ResponseCode::from(stale, 1);
                let mut fe = Edns::new();
                fe.set_rcode_high(stale);
                first.set_edns(fe);
                let b = first.to_vec().ok()?;
                Message::from_vec(&b).ok()?.edns.clone()?
            } else {
                let mut e = Edns::new();
                e.set_rcode_high(stale);
                e
            };
            e.set_version(version);
            e.set_dnssec_ok(dok);
            e.flags_mut().z = z;
            e.set_max_payload(payload);
            let mut m = Message::new(4369, MessageType::Response, OpCode::Query);
            m.metadata.response_code = ResponseCode::from(high, low);
            // the second encoder of the same value, `impl BinEncodable for Edns`: must write exactly what
            // `Record::from(&edns)` emits, and that must read back (`Record::read`, `Edns::from`) as the value
            let mut direct = String::from("-");
            if *via != "n" {
                let mut eb = vec![];
                let r1 = e.emit(&mut BinEncoder::new(&mut eb));
                let mut rb = vec![];
                let r2 = Record::from(&e).emit(&mut BinEncoder::new(&mut rb));
                if r1.is_err() || r2.is_err() || eb != rb {
                    fails.push(format!("Edns::emit wrote {} but the OPT record made from the same Edns encodes to {}", hex(&eb), hex(&rb)));
                }
                match Record::read(&mut BinDecoder::new(&eb)) {
                    Ok(rec) => {
                        let back = Edns::from(&rec);
                        if back != e {
                            fails.push(format!("Edns::emit then Record::read + Edns::from gives {} for {}", show_edns(Some(&back)), show_edns(Some(&e))));
                        }
                    }
                    Err(x) => fails.push(format!("what Edns::emit wrote does not read as a record: {x}")),
                }
                direct = hex(&eb);
                m.set_edns(e);
            }
            let out = match m.to_vec() {
                Ok(b) => {
                    match Message::from_vec(&b) {
                        Ok(m2) if *via == "n" => {
                            // no Edns value: the high bits cannot be carried (emit logs a warning); the low
                            // four bits come back, and no OPT record appears
                            let got = u16::from(m2.metadata.response_code);
                            if got != low as u16 || m2.edns.is_some() {
                                fails.push(format!("response code (high {high}, low {low}) without an Edns decodes, after encoding, to {got} (edns {})", m2.edns.is_some()));
                            }
                        }
                        Ok(m2) => {
                            let want = u16::from(ResponseCode::from(high, low));
                            let got = u16::from(m2.metadata.response_code);
                            if got != want {
                                fails.push(format!("response code {want} (high {high}, low {low}) with a stale Edns rcode_high {stale} decodes, after encoding, to {got}"));
                            }
                            match &m2.edns {
                                Some(e2) => {
                                    if e2.rcode_high() != high || e2.version() != version || e2.flags().dnssec_ok != dok || e2.flags().z != (z & 0x7FFF) || e2.max_payload() != payload.max(512) {
                                        fails.push(format!("Edns fields do not round-trip: rcode_high {} version {} do {} z {} payload {} (want {high} {version} {dok} {} {})", e2.rcode_high(), e2.version(), e2.flags().dnssec_ok, e2.flags().z, e2.max_payload(), z & 0x7FFF, payload.max(512)));
                                    }
                                }
                                None => fails.push("the OPT record disappeared".into()),
                            }
                        }
                        Err(e) => fails.push(format!("the encoding does not decode: {e}")),
                    }
                    format!("ok {} E:{direct}", hex(&b))
                }
                Err(_) => "err".into(),
            };
            Some(MsgVerdict { out, fails, class: "", n_limits: 1, n_truncated: 0, n_err: 0, n_full: 1, kind: "ednsrc", len: 23 })
        }
        ["undec", hx] => {
            // regression lines: these octets must NOT decode (implementation and model)
            let bytes = unhex(hx)?;
            let out = match Message::from_vec(&bytes) {
                Ok(m) => {
                    fails.push(format!("decodes although it must be refused: {}", &show_message(&m)[..show_message(&m).len().min(200)]));
                    "decodes".to_string()
                }
                Err(_) => "undecodable".to_string(),
            };
            Some(MsgVerdict { out, fails, class: "", n_limits: 0, n_truncated: 0, n_err: 1, n_full: 0, kind: "undec", len: bytes.len() })
        }
        ["tsnew", types] => {
            // a RecordTypeSet without original encoding, encoded afresh (windows / bitmaps)
            use hickory_proto::dnssec::rdata::NSEC;
            let ts: Vec<u16> = if *types == "-" {
                vec![]
            } else {
                types.split(',').map(|x| x.parse().ok()).collect::<Option<_>>()?
            };
            let n = NSEC::new(hickory_proto::rr::Name::root(), ts.iter().map(|c| hickory_proto::rr::RecordType::from(*c)));
            let mut buf = Vec::new();
            let res = {
                let mut enc = BinEncoder::new(&mut buf);
                n.emit(&mut enc)
            };
            let out = match res {
                Ok(()) => {
                    // oracle: the fresh encoding decodes to the same set of types
                    let mut want: Vec<u16> = ts.clone();
                    want.sort();
                    want.dedup();
                    match RData::read(BinDecoder::new(&buf), hickory_proto::rr::RecordType::NSEC) {
                        Ok(RData::DNSSEC(DNSSECRData::NSEC(back))) => {
                            let mut got: Vec<u16> = back.type_bit_maps().map(u16::from).collect();
                            got.sort();
                            if got != want {
                                fails.push(format!("fresh RecordTypeSet encoding decodes to {got:?}, built from {want:?}"));
                            }
                        }
                        Ok(_) => fails.push("fresh NSEC encoding decodes to another variant".into()),
                        Err(e) => fails.push(format!("fresh RecordTypeSet encoding does not decode: {e}")),
                    }
                    format!("ok {}", hex(&buf))
                }
                Err(_) => "err".into(),
            };
            Some(MsgVerdict { out, fails, class: "", n_limits: 0, n_truncated: 0, n_err: 0, n_full: 1, kind: "tsnew", len: buf.len() })
        }
        ["msg", hx, limits] => {
            let bytes = unhex(hx)?;
            let ls: Vec<u16> = limits.split(',').map(|x| x.parse().ok()).collect::<Option<_>>()?;
            let m = match Message::from_vec(&bytes) {
                Ok(m) => m,
                Err(e) => {
                    if std::env::var("HK_DEBUG").is_ok() {
                        eprintln!("undecodable input: {e} :: {}", hex(&bytes));
                    }
                    return None;
                }
            };
            let full = ls.len() == 1;
            let mut outs = vec![];
            let (mut n_tr, mut n_err, mut n_full) = (0, 0, 0);
            for l in &ls {
                match emit_limited(&m, *l) {
                    Ok(b) => {
                        if judge_truncation(&m, &b, *l as usize, "Message::emit", &mut fails) {
                            n_tr += 1;
                        } else {
                            n_full += 1;
                        }
                        outs.push(if full { format!("ok {}", hex(&b)) } else { format!("{}:{}", b.len(), fnv1a(&b)) });
                    }
                    Err(_) => {
                        n_err += 1;
                        outs.push("err".into());
                    }
                }
            }
            let out = if msg_modelled(&m) { outs.join("|") } else { "~".into() };
            Some(MsgVerdict { out, fails, class: "", n_limits: ls.len(), n_truncated: n_tr, n_err, n_full, kind: "msg", len: bytes.len() })
        }
        ["resp", proto, adv, hx] => run_line(&["respb", "std", proto, adv, hx]),
        ["respb", how, proto, adv, hx] => {
            let bytes = unhex(hx)?;
            let adv: Option<u16> = if *adv == "-" { None } else { Some(adv.parse().ok()?) };
            let m = Message::from_vec(&bytes).ok()?;
            if m.queries.len() != 1 {
                return None;
            }
            let (out, (n_tr, n_err, n_full)) = resp_case(&m, how, proto, adv, &mut fails)?;
            let out = if msg_modelled(&m) { out } else { "~".into() };
            let kind = match (*how, *proto) {
                ("std", "tcp") => "resp.tcp",
                ("std", _) => "resp.udp",
                _ => "respb",
            };
            Some(MsgVerdict { out, fails, class: "", n_limits: 1, n_truncated: n_tr, n_err, n_full, kind, len: bytes.len() })
        }
        ["cat", proto, adv, dok, ver, nsid, nrec, rlen, q, qtype, op] => {
            // the whole server path: request octets -> Catalog::handle_request -> ResponseHandle.  Judged
            // against the SAME request sent over TCP (limit 65535): never longer than the bound, decodes
            // with nothing left over, sections are prefixes, TC set exactly when something was dropped
            let (p, tcp) = match *proto {
                "udp" => (Protocol::Udp, false),
                "tcp" => (Protocol::Tcp, true),
                _ => return None,
            };
            let adv: Option<u16> = if *adv == "-" { None } else { Some(adv.parse().ok()?) };
            let nsid: Option<usize> = if *nsid == "-" { None } else { Some(nsid.parse().ok()?) };
            let (dok, ver): (bool, u8) = (*dok == "1", ver.parse().ok()?);
            let (nrec, rlen, qtype): (usize, usize, u16) = (nrec.parse().ok()?, rlen.parse().ok()?, qtype.parse().ok()?);
            let bound = if tcp { 65535 } else { adv.map(|a| a.max(512) as usize).unwrap_or(512) };
            let (mut n_tr, mut n_err, mut n_full) = (0, 0, 0);
            let run = |p: Protocol| catch(|| run_catalog(p, adv, dok, ver, nsid, nrec, rlen, q, qtype, op));
            match (run(p), run(Protocol::Tcp)) {
                (Ok(Ok(sent)), Ok(Ok(full))) => {
                    if sent.len() != 1 || full.len() != 1 {
                        fails.push(format!("{} messages were handed to the stream ({} over TCP), expected one", sent.len(), full.len()));
                    } else {
                        let (b, f) = (&sent[0], &full[0]);
                        if std::env::var("HK_DEBUG").is_ok() {
                            eprintln!("cat: {} octets over {proto} (flags {:02x}{:02x}, counts {:?}), {} over TCP", b.len(), b[2], b[3], &b[4..12], f.len());
                        }
                        if b.len() > bound {
                            fails.push(format!("server sent {} octets over {proto}, more than {bound}", b.len()));
                        }
                        if b.len() < 2 || b[..2] != [0x51, 0x51] {
                            fails.push("the response does not carry the request's id".into());
                        }
                        match Message::from_vec(f) {
                            Ok(fm) => {
                                let is_fallback = b.len() == 12 && b[3] & 15 == 2 && f.len() != 12;
                                if is_fallback {
                                    n_err += 1;
                                } else if judge_truncation(&fm, b, bound, "Catalog::handle_request", &mut fails) {
                                    n_tr += 1;
                                } else {
                                    n_full += 1;
                                }
                            }
                            Err(e) => fails.push(format!("the response over TCP does not decode: {e}")),
                        }
                    }
                }
                (Ok(Err(e)), _) | (_, Ok(Err(e))) => {
                    // (a request the server's own parser refuses is not a case)
                    if std::env::var("HK_DEBUG").is_ok() {
                        eprintln!("cat: {e}");
                    }
                    return None;
                }
                (Err(pn), _) | (_, Err(pn)) => fails.push(format!("panic in Catalog::handle_request: {pn}")),
            }
            Some(MsgVerdict { out: "~".into(), fails, class: "", n_limits: 1, n_truncated: n_tr, n_err, n_full, kind: "cat", len: nrec * rlen })
        }
        ["badrec", kind, sec, nb, na, mode] => {
            // a message built from VALUES, one of whose records cannot be encoded (for a reason other than
            // the size limit): `Message::emit` under a limit (`L<n>`), or the server's response path
            let (nb, na): (usize, usize) = (nb.parse().ok()?, na.parse().ok()?);
            let m = bad_message(kind, sec, nb, na)?;
            let bad = *kind != "good";
            if let Some(l) = mode.strip_prefix('L') {
                let l: u16 = l.parse().ok()?;
                let (mut n_tr, mut n_err, mut n_full) = (0, 0, 0);
                let out = match catch(|| emit_limited(&m, l)) {
                    Ok(Ok(b)) => {
                        if bad && l == 65535 {
                            fails.push(format!("a message holding an unencodable record ({kind}) was encoded to {} octets", b.len()));
                        }
                        if judge_truncation(&m, &b, l as usize, "Message::emit", &mut fails) {
                            n_tr += 1;
                        } else {
                            n_full += 1;
                        }
                        format!("ok {}", hex(&b))
                    }
                    Ok(Err(_)) => {
                        if !bad && l == 65535 {
                            fails.push("the control message (only encodable records) was refused".into());
                        }
                        n_err += 1;
                        "err".into()
                    }
                    Err(p) => {
                        fails.push(format!("panic: {p}"));
                        "panic".into()
                    }
                };
                return Some(MsgVerdict { out, fails, class: "", n_limits: 1, n_truncated: n_tr, n_err, n_full, kind: "badrec", len: 0 });
            }
            let (proto, adv) = mode.split_once(':')?;
            let adv: Option<u16> = if adv == "-" { None } else { Some(adv.parse().ok()?) };
            let (out, (n_tr, n_err, n_full)) = resp_case(&m, "std", proto, adv, &mut fails)?;
            if bad && proto == "tcp" && n_err == 0 {
                fails.push(format!("a response holding an unencodable record ({kind}) was sent over TCP as something other than the header-only SERVFAIL"));
            }
            Some(MsgVerdict { out, fails, class: "", n_limits: 1, n_truncated: n_tr, n_err, n_full, kind: "badrec.resp", len: 0 })
        }
        ["rt", hx] => {
            let bytes = unhex(hx)?;
            let m = Message::from_vec(&bytes).ok()?;
            let mut class = "";
            // `CERT::try_from(&[u8])`, the other public entry point to the CERT decoder
            for r in m.answers.iter().chain(&m.authorities).chain(&m.additionals) {
                typed_views(r, &mut fails);
                if let RData::CERT(c) = &r.data {
                    let mut rd = vec![];
                    if c.emit(&mut BinEncoder::new(&mut rd)).is_ok() && hickory_proto::rr::rdata::CERT::try_from(&rd[..]).ok().as_ref() != Some(c) {
                        fails.push(format!("CERT::try_from on the RDATA {} does not give the decoded value back", hex(&rd)));
                    }
                }
            }
            // the other encoders of an EDNS option value (`Vec<u8>: TryFrom<&EdnsOption>`, `EdnsCode:
            // From<&EdnsOption>`, `EdnsOption::len`) agree with `EdnsOption::emit` and the stored code
            if let Some(e) = &m.edns {
                use hickory_proto::rr::rdata::opt::EdnsCode;
                for (code, opt) in e.options().as_ref().iter() {
                    let mut direct = vec![];
                    let r = opt.emit(&mut BinEncoder::new(&mut direct));
                    match Vec::<u8>::try_from(opt) {
                        Ok(v) if r.is_ok() && v == direct && v.len() == opt.len() as usize => {}
                        other => fails.push(format!("EDNS option {}: Vec::<u8>::try_from gives {:?}, emit wrote {} (ok {}), len() = {}", u16::from(*code), other.map(|v| hex(&v)), hex(&direct), r.is_ok(), opt.len())),
                    }
                    if EdnsCode::from(opt) != *code {
                        fails.push(format!("EDNS option stored under code {} reports code {}", u16::from(*code), u16::from(EdnsCode::from(opt))));
                    }
                }
            }
            let (out, n_err) = match m.to_vec() {
                Ok(b) => {
                    let mut d = BinDecoder::new(&b);
                    match Message::read(&mut d) {
                        Ok(m2) => {
                            // the property: the re-encoding decodes to the same message, all of it
                            let (d1, d2) = (show_message(&m), show_message(&m2));
                            if d1 != d2 {
                                if m2.metadata.truncation && !m.metadata.truncation && b.len() > 65000 {
                                    class = "C02.ReencodeExceeds64K";
                                }
                                fails.push(format!("re-encoding decodes to a different message: {} vs {}", &d1[..d1.len().min(300)], &d2[..d2.len().min(300)]));
                            }
                            if !d.is_empty() {
                                fails.push(format!("{} octets left over after decoding the re-encoding", d.len()));
                            }
                            // upstream fuzz oracle 1 (fuzz_targets/message.rs)
                            if !crate::props::fuzzoracle::messages_equal(&m, &m2) {
                                fails.push("upstream oracle message.rs: original != reparsed".into());
                            }
                            // upstream fuzz oracle 2 (fuzz_targets/preserve_rdata.rs)
                            match catch(|| crate::props::fuzzoracle::preserve_rdata(&bytes, &b)) {
                                Ok(Ok(())) => {}
                                Ok(Err(e)) => fails.push(format!("upstream oracle preserve_rdata.rs: {e}")),
                                Err(p) => fails.push(format!("upstream oracle preserve_rdata.rs panicked: {p}")),
                            }
                            (format!("ok {} {} {}", b.len(), d.index(), d2), 0)
                        }
                        Err(e) => {
                            fails.push(format!("re-encoding does not decode: {e}"));
                            ("redecode-err".to_string(), 1)
                        }
                    }
                }
                Err(e) => {
                    fails.push(format!("a decoded message failed to serialize: {e}"));
                    ("err".to_string(), 1)
                }
            };
            let out = if msg_modelled(&m) { out } else { "~".into() };
            Some(MsgVerdict { out, fails, class, n_limits: 1, n_truncated: 0, n_err, n_full: 1 - n_err, kind: "rt", len: bytes.len() })
        }
        ["asm", hx, want] => {
            // an assembled message (the generator's own value, dumped before encoding) must decode,
            // after encoding, to itself: `want` is the FNV-1a of its dump
            let bytes = unhex(hx)?;
            let want: u64 = want.parse().ok()?;
            let mut class = "";
            match Message::from_vec(&bytes) {
                Ok(m) => {
                    let dump = asm_dump(&m);
                    if fnv1a(dump.as_bytes()) != want {
                        if std::env::var("HK_DEBUG").is_ok() {
                            eprintln!("GOT {want} {dump}");
                        }
                        if u16::from(m.metadata.response_code) == 16 {
                            class = "C02.BadVersBadSigAlias";
                        }
                        fails.push(format!("assembled message decodes, after encoding, to a different message: {}", &dump[..dump.len().min(400)]));
                    }
                    // the accessors over the decoded message, and `Message::read_queries` (the other entry
                    // point to the question section), agree with its fields
                    let n = m.answers.len() + m.authorities.len() + m.additionals.len();
                    let mut m2 = m.clone();
                    if m.all_sections().count() != n || m2.take_all_sections().count() != n || !(m2.answers.is_empty() && m2.authorities.is_empty() && m2.additionals.is_empty()) {
                        fails.push("all_sections / take_all_sections disagree with the three sections".into());
                    }
                    if m.max_payload() != m.edns.as_ref().map_or(512, |e| e.max_payload().max(512)) || m.version() != m.edns.as_ref().map_or(0, |e| e.version()) {
                        fails.push("Message::max_payload / version disagree with the Edns".into());
                    }
                    if m.signature().is_some() != m.signature.is_some() || m2.take_signature().map(|b| *b) != m.signature.as_deref().cloned() || m2.signature.is_some() {
                        fails.push("Message::signature / take_signature disagree with the field".into());
                    }
                    let mut d = BinDecoder::new(&bytes);
                    let qs = Header::read(&mut d).ok().and_then(|h| Message::read_queries(&mut d, h.counts.queries as usize).ok());
                    if qs.as_ref() != Some(&m.queries) {
                        fails.push("Message::read_queries disagrees with Message::read on the question section".into());
                    }
                }
                Err(e) => fails.push(format!("assembled message does not decode after encoding: {e}")),
            }
            Some(MsgVerdict { out: "~".into(), fails, class, n_limits: 1, n_truncated: 0, n_err: 0, n_full: 1, kind: "asm", len: bytes.len() })
        }
        _ => None,
    }
}

/// boundaries of the wire message: index after the header, after every question and every record
pub fn boundaries(bytes: &[u8]) -> Vec<usize> {
    let mut out = vec![];
    let mut d = BinDecoder::new(bytes);
    let Ok(h) = Header::read(&mut d) else { return out };
    out.push(d.index());
    for _ in 0..h.counts.queries {
        if Query::read(&mut d).is_err() {
            return out;
        }
        out.push(d.index());
    }
    let n = h.counts.answers as usize + h.counts.authorities as usize + h.counts.additionals as usize;
    for _ in 0..n {
        if Record::read(&mut d).is_err() {
            return out;
        }
        out.push(d.index());
    }
    out
}

// ------------------------------------------------------------------ execution wrapper

pub fn exec(line: &str, rec: &mut Recorder, nontrivial: impl Fn(&MsgVerdict) -> bool) {
    let t: Vec<&str> = line.split_whitespace().collect();
    match catch(|| run_line(&t)) {
        Ok(Some(v)) => {
            if v.out == "~" {
                rec.impl_only += 1;
            }
            let idx = rec.case(line.to_string(), v.out.clone());
            rec.stat(&format!("line.{}", v.kind));
            rec.stat_n("limits.evaluated", v.n_limits as u64);
            rec.stat_n("outcome.truncated", v.n_truncated as u64);
            rec.stat_n("outcome.complete", v.n_full as u64);
            rec.stat_n("outcome.err", v.n_err as u64);
            if ["cat", "badrec", "badrec.resp", "respb"].contains(&v.kind) {
                rec.stat_n(&format!("outcome.{}.truncated", v.kind), v.n_truncated as u64);
                rec.stat_n(&format!("outcome.{}.complete", v.kind), v.n_full as u64);
                rec.stat_n(&format!("outcome.{}.err-or-servfail", v.kind), v.n_err as u64);
            }
            rec.stat(match v.len {
                0..=99 => "msg.len<100",
                100..=511 => "msg.len100-511",
                512..=1499 => "msg.len512-1499",
                1500..=16382 => "msg.len1500-16382",
                _ => "msg.len>=16383",
            });
            if nontrivial(&v) {
                rec.nontrivial(idx);
            }
            for f in v.fails {
                rec.fail(idx, f, v.class);
            }
        }
        Ok(None) => rec.stat(&format!("skipped.unusable-{}", t.first().copied().unwrap_or("?"))),
        Err(p) => {
            let idx = rec.case(line.to_string(), "panic".into());
            rec.stat("status.panic");
            rec.fail(idx, format!("panic: {p}"), "");
        }
    }
}

// ------------------------------------------------------------------ structured message generator

use hickory_proto::op::{MessageType, OpCode, ResponseCode};
use hickory_proto::rr::rdata::{A, AAAA, CNAME, HINFO, MX, NS, NULL, PTR, SOA, SRV, TXT};
use hickory_proto::rr::{DNSClass, Name, RecordType};

pub struct NamePool {
    pub bases: Vec<Vec<Vec<u8>>>,
    pub prefixes: Vec<Vec<u8>>,
    pub counter: usize,
}

impl NamePool {
    pub fn new(r: &mut Rng) -> Self {
        let lab = |r: &mut Rng| -> Vec<u8> {
            let n = r.range(1, 8) as usize;
            (0..n).map(|_| *r.pick(b"abcdeXYZ019-")).collect()
        };
        let nb = r.range(1, 3) as usize;
        let bases = (0..nb).map(|_| (0..r.range(1, 3)).map(|_| lab(r)).collect()).collect();
        let prefixes = (0..r.range(1, 5)).map(|_| lab(r)).collect();
        Self { bases, prefixes, counter: 0 }
    }
    pub fn name(&mut self, r: &mut Rng, fresh: bool) -> Name {
        let mut labels: Vec<Vec<u8>> = vec![];
        if fresh {
            self.counter += 1;
            labels.push(format!("n{}", self.counter).into_bytes());
        }
        for _ in 0..r.below(3) {
            labels.push(r.pick(&self.prefixes).clone());
        }
        labels.extend(r.pick(&self.bases).clone());
        if r.chance(1, 6) {
            for l in labels.iter_mut() {
                for c in l.iter_mut() {
                    if r.chance(1, 3) && c.is_ascii_lowercase() {
                        *c -= 32;
                    }
                }
            }
        }
        if r.chance(1, 30) {
            return Name::root();
        }
        Name::from_labels(labels.iter().map(|l| &l[..])).unwrap_or_else(|_| Name::root())
    }
}

pub fn gen_rdata_tier(r: &mut Rng, pool: &mut NamePool) -> RData {
    match r.below(16) {
        0 | 1 => RData::A(A(std::net::Ipv4Addr::from(r.next() as u32))),
        2 => RData::AAAA(AAAA(std::net::Ipv6Addr::from(((r.next() as u128) << 64) | r.next() as u128))),
        3 => RData::NS(NS(pool.name(r, false))),
        4 => RData::CNAME(CNAME(pool.name(r, false))),
        5 => RData::PTR(PTR(pool.name(r, false))),
        6 => RData::MX(MX::new(r.next() as u16, pool.name(r, false))),
        7 => RData::SOA(SOA::new(pool.name(r, false), pool.name(r, false), r.next() as u32, r.next() as i32, r.next() as i32, r.next() as i32, r.next() as u32)),
        8 => {
            // (a TXT without strings encodes to RDLENGTH 0, which decodes as Update0 and is rejected
            // outside UPDATE messages: not a valid record — see the built-in cases of c02.rs)
            let k = r.range(1, 3);
            let strs: Vec<Vec<u8>> = (0..k)
                .map(|_| {
                    let n = *r.pick(&[0usize, 1, 7, 31, 120]);
                    r.bytes(n)
                })
                .collect();
            RData::TXT(TXT::from_bytes(strs.iter().map(|s| &s[..]).collect()))
        }
        9 => RData::SRV(SRV::new(r.next() as u16, r.next() as u16, r.next() as u16, pool.name(r, false))),
        10 => {
            let (a, b) = (r.below(9) as usize, r.below(9) as usize);
            RData::HINFO(HINFO::from_bytes(r.bytes(a).into_boxed_slice(), r.bytes(b).into_boxed_slice()))
        }
        11 => {
            let n = r.range(1, 60) as usize;
            RData::NULL(NULL::with(r.bytes(n)))
        }
        12 => RData::ANAME(hickory_proto::rr::rdata::ANAME(pool.name(r, false))),
        14 | 15 => {
            // the name-free "blob" family (stage 3): a typed value obtained by decoding a well-formed seed
            let t = *r.pick(&[43u16, 59, 48, 60, 52, 53, 44, 61, 37, 51, 257, 25, 35, 46, 47, 50, 62, 64, 65]);
            let seed = crate::props::c01::seed_rdata(r, t);
            match RData::read(BinDecoder::new(&seed), RecordType::from(t)) {
                Ok(d) => d,
                Err(_) => RData::A(A(std::net::Ipv4Addr::from(r.next() as u32))),
            }
        }
        _ => {
            let n = r.range(1, 20) as usize;
            RData::Unknown { code: RecordType::from(*r.pick(&[99u16, 65280, 3])), rdata: NULL::with(r.bytes(n)) }
        }
    }
}

pub fn gen_record_tier(r: &mut Rng, pool: &mut NamePool, fresh: bool) -> Record {
    let d = gen_rdata_tier(r, pool);
    let mut x = Record::from_rdata(pool.name(r, fresh), r.next() as u32, d);
    if r.chance(1, 12) {
        x.dns_class = *r.pick(&[DNSClass::CH, DNSClass::ANY, DNSClass::NONE]);
    }
    x
}

/// `big` : enough distinct names to fill the candidate table (64) before the last sections
pub fn gen_message_tier(r: &mut Rng, rec: &mut Recorder, big: bool) -> Option<Message> {
    let mut pool = NamePool::new(r);
    let mt = if r.chance(1, 5) { MessageType::Query } else { MessageType::Response };
    let op = if r.chance(1, 8) { OpCode::Update } else { OpCode::Query };
    let mut m = Message::new(r.next() as u16, mt, op);
    m.metadata.authoritative = r.chance(1, 2);
    m.metadata.truncation = r.chance(1, 10);
    m.metadata.recursion_desired = r.chance(1, 2);
    m.metadata.recursion_available = r.chance(1, 2);
    m.metadata.authentic_data = r.chance(1, 4);
    m.metadata.checking_disabled = r.chance(1, 4);
    let nq = *r.pick(&[1u64, 1, 1, 1, 1, 0, 2]);
    for _ in 0..nq {
        let mut q = Query::new(pool.name(r, false), RecordType::from(*r.pick(&[1u16, 28, 15, 16, 255, 6])));
        if r.chance(1, 8) {
            q.set_query_class(DNSClass::CH);
        }
        m.add_query(q);
    }
    let (na, nn, nx) = if big {
        (r.range(30, 90), r.range(0, 12), r.range(0, 12))
    } else {
        (r.below(6), r.below(4), r.below(5))
    };
    for _ in 0..na {
        let f = big || r.chance(1, 3);
        let x = gen_record_tier(r, &mut pool, f);
        m.add_answer(x);
    }
    for _ in 0..nn {
        let f = r.chance(1, 3);
        let x = gen_record_tier(r, &mut pool, f);
        m.add_authority(x);
    }
    for _ in 0..nx {
        let f = r.chance(1, 3);
        let x = gen_record_tier(r, &mut pool, f);
        m.add_additional(x);
    }
    if op == OpCode::Update && r.chance(1, 2) {
        let mut u = Record::update0(pool.name(r, false), 0, RecordType::from(*r.pick(&[1u16, 255, 16])));
        u.dns_class = *r.pick(&[DNSClass::ANY, DNSClass::NONE]);
        m.add_authority(u);
    }
    if r.chance(3, 5) {
        let mut e = Edns::new();
        e.set_max_payload(*r.pick(&[512u16, 1232, 4096, 65535]));
        e.set_dnssec_ok(r.chance(1, 2));
        if r.chance(1, 3) {
            *e.options_mut() = crate::props::c01::gen_opt(r);
        }
        m.set_edns(e);
    }
    let low = r.below(11) as u8;
    // an extended response code needs EDNS; `Edns::rcode_high` mirrors the header's high bits (emit
    // overwrites it with them); 16 is avoided here (BADVERS/BADSIG alias, see the built-in cases)
    let high = if m.edns.is_some() && r.chance(1, 5) { *r.pick(&[2u8, 3, 255]) } else { 0 };
    m.metadata.response_code = ResponseCode::from(high, low);
    if let Some(e) = m.edns.as_mut() {
        e.set_rcode_high(high);
    }
    if r.chance(1, 6) {
        let seed = crate::props::c01::seed_rdata(r, 250);
        if let Ok(Ok(RData::TSIG(t))) = catch(|| RData::read(BinDecoder::new(&seed), RecordType::TSIG)) {
            let mut sig = Record::from_rdata(pool.name(r, false), 0, t);
            sig.dns_class = DNSClass::ANY;
            m.set_signature(Box::new(sig));
            rec.stat("gen.tsig");
        }
    }
    Some(m)
}

/// limits worth trying for `bytes` : around every boundary, the whole tail, a few fixed and random ones
pub fn limits_for(r: &mut Rng, bytes: &[u8], cap: usize) -> Vec<u16> {
    let len = bytes.len();
    let mut ls: Vec<usize> = vec![0, 11, 12, 13, 512, 65535];
    let bs = boundaries(bytes);
    let mut around: Vec<usize> = vec![];
    for b in &bs {
        for d in [-1i64, 0, 1, 2, 9, 10, 11, 12] {
            let v = *b as i64 + d;
            if v >= 0 {
                around.push(v as usize);
            }
        }
    }
    // the whole tail of the message: every limit from 16 before the end to 2 past it
    for v in len.saturating_sub(16)..=len + 2 {
        ls.push(v);
    }
    if around.len() > cap {
        // keep a contiguous stretch of boundaries plus a random sample
        let start = r.below((around.len() - cap / 2) as u64) as usize;
        ls.extend(around[start..start + cap / 2].iter().copied());
        for _ in 0..cap / 2 {
            ls.push(*r.pick(&around));
        }
    } else {
        ls.extend(around);
    }
    for _ in 0..4 {
        ls.push(r.below(len as u64 + 3) as usize);
    }
    let mut out: Vec<u16> = ls.into_iter().filter(|v| *v <= 65535).map(|v| v as u16).collect();
    out.sort();
    out.dedup();
    out
}

pub fn msg_line(bytes: &[u8], limits: &[u16]) -> String {
    format!("msg {} {}", hex(bytes), limits.iter().map(|l| l.to_string()).collect::<Vec<_>>().join(","))
}
