//! C02 — encode/decode round trip.  Stage 1: the encoder core and name compression.
//! Case lines are encoder scripts (see `encscript.rs`): sequences of names written in the various
//! name-encoding modes into one real `BinEncoder`, interleaved with the primitives a record writer
//! uses.  Compared with the Lean model byte for byte; the oracle (independent of the model) decodes
//! every written name with the real `Name::read` at its start offset and demands the identical
//! label sequence, letter case included.
use crate::common::*;
use crate::props::encscript::*;

fn nontrivial(v: &Verdict) -> bool {
    v.compressed_names >= 1 && v.checked_names >= 2
}

pub fn exec(line: &str, rec: &mut Recorder) {
    if line.starts_with("msg ") || line.starts_with("rt ") || line.starts_with("asm ") || line.starts_with("resp ") || line.starts_with("tsnew ") {
        crate::props::msgemit::exec(line, rec, |v| v.n_err == 0 && v.len > 40)
    } else {
        encscript::exec(line, rec, nontrivial)
    }
}

use crate::props::encscript;

// ---------------------------------------------------------------- generators

/// a pool of base domains; names are built as `prefix labels ++ base`
struct Family {
    bases: Vec<Vec<Vec<u8>>>,
    prefixes: Vec<Vec<u8>>,
}

fn gen_family(r: &mut Rng) -> Family {
    let nb = r.range(1, 4) as usize;
    let bases = (0..nb)
        .map(|_| {
            let k = r.range(1, 3) as usize;
            (0..k).map(|_| small_label(r)).collect()
        })
        .collect();
    let np = r.range(1, 5) as usize;
    let prefixes = (0..np).map(|_| small_label(r)).collect();
    Family { bases, prefixes }
}

fn gen_name_in(r: &mut Rng, f: &Family, distinct: Option<usize>) -> String {
    if r.chance(1, 40) {
        return "F:".into();
    }
    let base = r.pick(&f.bases).clone();
    let mut labels: Vec<Vec<u8>> = vec![];
    if let Some(i) = distinct {
        // a label no other name of the script has: forces a new candidate
        labels.push(format!("x{i}").into_bytes());
    }
    let k = match r.below(6) {
        0 => 0,
        1 | 2 => 1,
        3 | 4 => 2,
        _ => 3,
    };
    for _ in 0..k {
        labels.push(r.pick(&f.prefixes).clone());
    }
    labels.extend(base);
    if r.chance(1, 5) {
        // case-sensitive candidate matching: flip the case of some letters
        labels = labels.iter().map(|l| rand_case(r, l, 1, 3)).collect();
    }
    match name_from(&labels) {
        Some(mut s) => {
            if r.chance(1, 12) {
                s.replace_range(0..1, "R");
            }
            s
        }
        None => "F:".into(),
    }
}

fn name_op(r: &mut Rng, name: &str) -> String {
    if r.chance(1, 6) {
        format!("rd:{}:{}", r.pick(&["s", "c", "o"]), name)
    } else {
        format!("n:{}:{}", mode_tok(r), name)
    }
}

/// a record-shaped group: owner, type/class/ttl, RDLENGTH place, rdata (maybe names), back-patch
fn record_ops(r: &mut Rng, f: &Family, out: &mut Vec<String>) {
    out.push(format!("n:d:{}", gen_name_in(r, f, None)));
    out.push(format!("u16:{}", r.pick(&[1u32, 2, 5, 15, 16, 33, 6])));
    out.push("u16:1".into());
    out.push(format!("u32:{}", r.below(100000)));
    out.push("pl:u".into());
    match r.below(5) {
        0 => out.push(format!("sl:{}", hex(&r.bytes(4)))),
        1 => out.push(format!("rd:s:{}", gen_name_in(r, f, None))),
        2 => {
            out.push(format!("u16:{}", r.below(100)));
            out.push(format!("rd:s:{}", gen_name_in(r, f, None)));
        }
        3 => {
            let k = r.below(20) as usize;
            out.push(format!("cd:{}", hex(&r.bytes(k))));
        }
        _ => {
            out.push(format!("sl:{}", hex(&r.bytes(6))));
            out.push(format!("rd:o:{}", gen_name_in(r, f, None)));
        }
    }
    out.push("rpl".into());
}

fn gen_script(r: &mut Rng) -> String {
    let f = gen_family(r);
    let mut ops: Vec<String> = vec![];
    let shape = r.below(20);
    // prefix
    match r.below(8) {
        0 => ops.push("pl:12".into()),
        1 => ops.push(format!("sl:{}", hex(&r.bytes(12)))),
        2 if shape >= 4 => {
            // names below, a filler, names across / above the 0x3FFF candidate-offset limit
            for _ in 0..r.range(1, 6) {
                let n = gen_name_in(r, &f, None);
                ops.push(name_op(r, &n));
            }
            ops.push(format!("fill:{}:00", 16383 - r.below(120) as i64 - if r.chance(1, 3) { 0 } else { 40 }));
        }
        _ => {}
    }
    if r.chance(1, 10) {
        // a tiny limit: names fail at a label, at the root octet or at the pointer; the names that
        // were written must still decode (the limit is never raised again)
        ops.push(format!("max:{}", r.below(90)));
    }
    if r.chance(1, 10) {
        ops.push("canon:1".into());
    }
    if r.chance(1, 15) {
        ops.push(format!("ne:{}", r.pick(&["c", "u", "l"])));
    }
    let count = match shape {
        0 => r.range(66, 100),  // > 64 candidates
        1 => r.range(121, 170), // > 120 compressed names
        2 | 3 => r.range(30, 64),
        _ => r.range(2, 16),
    } as usize;
    let distinct = shape <= 1 || r.chance(1, 4);
    let mut emitted: Vec<String> = vec![];
    for i in 0..count {
        if shape > 3 && r.chance(1, 5) {
            record_ops(r, &f, &mut ops);
            continue;
        }
        let n = if !emitted.is_empty() && r.chance(1, 5) {
            r.pick(&emitted).clone()
        } else {
            let d = if distinct && r.chance(3, 4) { Some(i) } else { None };
            gen_name_in(r, &f, d)
        };
        emitted.push(n.clone());
        ops.push(name_op(r, &n));
        if r.chance(1, 12) {
            ops.push(format!("u16:{}", r.below(65536)));
        }
    }
    format!("enc e {}", ops.join(" "))
}

/// names of 250..255 octets sharing long suffixes
fn gen_long_script(r: &mut Rng) -> String {
    let mut tail: Vec<Vec<u8>> = vec![];
    let mut total = 1usize;
    let target = r.range(240, 255) as usize;
    while total < target {
        let room = target - total;
        if room < 2 {
            break;
        }
        let l = (room - 1).min(r.range(1, 63) as usize);
        let c = *r.pick(b"abAB");
        tail.push(vec![c; l]);
        total += l + 1;
    }
    let mut ops = vec![];
    if r.chance(1, 2) {
        ops.push(format!("fill:{}:00", 16383 - r.below(300)));
    }
    for _ in 0..r.range(2, 6) {
        let skip = r.below(tail.len() as u64) as usize;
        let mut labels: Vec<Vec<u8>> = tail[skip..].to_vec();
        if r.chance(1, 2) {
            let used: usize = labels.iter().map(|l| l.len() + 1).sum::<usize>() + 1;
            let room = 255usize.saturating_sub(used);
            if room >= 2 {
                let l = (room - 1).min(63).min(r.range(1, 63) as usize);
                labels.insert(0, vec![*r.pick(b"qQ"); l]);
            }
        }
        if r.chance(1, 6) {
            labels = labels.iter().map(|l| rand_case(r, l, 1, 8)).collect();
        }
        if let Some(n) = name_from(&labels) {
            ops.push(format!("n:{}:{}", mode_tok(r), n));
        }
    }
    format!("enc e {}", ops.join(" "))
}

/// deterministic adversarial scripts too long for the corpus files
fn built_in() -> Vec<String> {
    let mut v = vec![];
    let lab = |s: &str| hex(s.as_bytes());
    // 70 distinct suffixes: only the first 64 become candidates; re-emit all of them
    let mut ops = vec![];
    for i in 0..70 {
        ops.push(format!("n:c:F:{}.{}", lab(&format!("h{i}")), lab(&format!("d{i}"))));
    }
    for i in 0..70 {
        ops.push(format!("n:c:F:{}.{}.{}", lab("www"), lab(&format!("h{i}")), lab(&format!("d{i}"))));
    }
    v.push(format!("enc e {}", ops.join(" ")));
    // 130 names with one shared suffix: compression stops after 120 names
    let mut ops = vec![];
    for i in 0..130 {
        ops.push(format!("n:c:F:{}.{}.{}", lab(&format!("n{i}")), lab("example"), lab("com")));
    }
    ops.push(format!("n:c:F:{}.{}", lab("example"), lab("com")));
    v.push(format!("enc e {}", ops.join(" ")));
    // candidates may only be stored while offset < 0x3FFF; pointers to low offsets stay usable above
    for start in [16370usize, 16380, 16381, 16382, 16383, 16384, 16390] {
        let mut ops = vec![format!("n:c:F:{}.{}", lab("low"), lab("org")), format!("fill:{}:00", start - 9)];
        for i in 0..4 {
            ops.push(format!("n:c:F:{}.{}.{}", lab(&format!("a{i}")), lab("hi"), lab("net")));
            ops.push(format!("n:c:F:{}.{}.{}", lab(&format!("b{i}")), lab("low"), lab("org")));
        }
        v.push(format!("enc e {}", ops.join(" ")));
    }
    // case-sensitive matching: ABC.com must not point at abc.com
    v.push(format!(
        "enc e n:c:F:{}.{} n:c:F:{}.{} n:c:F:{}.{} n:l:F:{}.{} n:c:F:{}.{}",
        lab("abc"), lab("com"), lab("ABC"), lab("com"), lab("abc"), lab("COM"), lab("ABC"), lab("COM"), lab("abc"), lab("com")
    ));
    v
}

pub fn run(o: &Opts, rec: &mut Recorder) {
    rec.rule = "encoder scripts from a seeded structured generator: 2-170 names per script built from a small family of base domains and prefix labels (shared suffixes, exact repeats, mixed case, a label unique to the script to force new candidates, root, relative names), modes Compressed/Uncompressed/UncompressedLowercase/with_rdata_behavior x canonical_form, record-shaped groups with RDLENGTH place/back-patch, > 64 candidates, > 120 compressed names, a filler moving the offset across 0x3FFF, names of 240-255 octets, one script in ten under a limit of 0-89 octets; a case is non-trivial when at least one name was written with a compression pointer and at least two names were round-trip checked; distinct by case line.  Stage 2: assembled messages of the modelled RDATA types (asm: decode-after-encode equals the assembled value; rt: from_vec/to_vec/from_vec), messages of every RDATA variant from the C01 generator and their mutations (rt); a message case is non-trivial when it round-trips and is longer than 40 octets".into();
    for l in o.pre_lines.clone() {
        exec(&l, rec);
    }
    rec.corpus_cases = rec.cases.len();
    if o.replay_only {
        return;
    }
    for l in built_in() {
        exec(&l, rec);
    }
    let mut r = Rng::new(o.seed);
    let n = o.n(1200, 40_000);
    for i in 0..n {
        let line = if i % 10 == 9 { gen_long_script(&mut r) } else { gen_script(&mut r) };
        exec(&line, rec);
    }
    // ---------------- stage 2: whole messages
    for l in built_in_messages() {
        exec(&l, rec);
    }
    // a directed family over the whole parameter range of the EDNS options (every tier)
    for l in directed_edns_options(o.seed) {
        rec.stat("line.rt.directed-edns");
        exec(&l, rec);
    }
    // RecordTypeSet built by hand (no original encoding): the fresh window / bitmap encoder
    for l in directed_fresh_typesets(o.seed) {
        exec(&l, rec);
    }
    use crate::props::c01;
    use crate::props::msgemit::{fnv1a, gen_message_tier};
    let mut r = Rng::new(o.seed ^ 0x00C0_2B00);
    let n = o.n(600, 30_000);
    for i in 0..n {
        match i % 6 {
            // an assembled message of modelled types: must decode, after encoding, to itself; and the
            // decoded message must survive a second trip (model-compared)
            0 | 1 | 2 => {
                let Some(m) = gen_message_tier(&mut r, rec, i % 60 == 0) else { continue };
                let Ok(bytes) = m.to_vec() else {
                    rec.stat("gen.emit-failed");
                    continue;
                };
                let h = hex(&bytes);
                let want = crate::props::msgemit::asm_dump(&m);
                if std::env::var("HK_DEBUG").is_ok() {
                    eprintln!("ASM {} {}", fnv1a(want.as_bytes()), want);
                }
                exec(&format!("asm {h} {}", fnv1a(want.as_bytes())), rec);
                exec(&format!("rt {h}"), rec);
            }
            // every RDATA variant hickory knows (DNSSEC types, SVCB, CAA, …; implementation-only when
            // a record has no modelled emitter)
            3 | 4 => {
                let bytes = c01::gen_message(&mut r, rec, false, false);
                exec(&format!("rt {}", hex(&bytes)), rec);
            }
            // "decode what the C01 generator produced and re-encode": mutated encodings
            _ => {
                let mut bytes = c01::gen_message(&mut r, rec, i % 12 == 5, false);
                for _ in 0..r.range(1, 3) {
                    c01::mutate(&mut r, &mut bytes);
                }
                exec(&format!("rt {}", hex(&bytes)), rec);
            }
        }
    }
}

/// `tsnew` lines: type sets over the boundaries of the window / bitmap encoding
fn directed_fresh_typesets(seed: u64) -> Vec<String> {
    let mut r = Rng::new(seed ^ 0x7575_E701);
    let mut v = vec!["tsnew -".to_string()];
    let show = |ts: &[u16]| ts.iter().map(|t| t.to_string()).collect::<Vec<_>>().join(",");
    for ts in [
        vec![1u16], vec![0], vec![7], vec![8], vec![255], vec![256], vec![257], vec![65535], vec![65280],
        vec![1, 2, 6, 15, 16, 28, 46, 47, 48], vec![47, 46, 1, 1, 47], vec![255, 256, 511, 512, 65535, 0],
        vec![1, 257, 513, 769, 1025], vec![248, 249, 250, 251, 252, 253, 254, 255],
    ] {
        v.push(format!("tsnew {}", show(&ts)));
    }
    for _ in 0..40 {
        let n = r.range(1, 12) as usize;
        let ts: Vec<u16> = (0..n)
            .map(|_| match r.below(4) {
                0 => r.below(64) as u16,
                1 => r.below(300) as u16,
                2 => (r.below(4) * 256 + r.below(256)) as u16,
                _ => r.next() as u16,
            })
            .collect();
        v.push(format!("tsnew {}", show(&ts)));
    }
    v
}

/// A query whose only record is an OPT record with the given option octets (RDATA), as wire bytes.
fn opt_message(id: u16, rdata: &[u8]) -> Vec<u8> {
    let mut b = vec![];
    b.extend(id.to_be_bytes());
    b.extend([0x01, 0x00]); // RD
    b.extend([0, 1, 0, 0, 0, 0, 0, 1]); // QD 1, AR 1
    b.extend([7]);
    b.extend(b"example");
    b.extend([0, 0, 1, 0, 1]); // example. A IN
    b.extend([0]); // root
    b.extend(41u16.to_be_bytes());
    b.extend(1232u16.to_be_bytes());
    b.extend([0, 0, 0x80, 0]); // DO
    b.extend((rdata.len() as u16).to_be_bytes());
    b.extend(rdata);
    b
}

fn opt_option(code: u16, data: &[u8]) -> Vec<u8> {
    let mut v = vec![];
    v.extend(code.to_be_bytes());
    v.extend((data.len() as u16).to_be_bytes());
    v.extend(data);
    v
}

/// Directed family (stage 3): decode → encode → decode over the WHOLE parameter range of the EDNS
/// options — Client Subnet with family 1 / 2, EVERY source prefix 0..=32 / 0..=128 (not only the
/// octet-aligned ones), scope prefixes likewise, addresses with random bits including non-zero bits
/// beyond the prefix in the last transmitted octet (which the decoder accepts and keeps) — plus the
/// length boundaries of the other options (NSID, DAU, unknown codes) and several options in one OPT.
fn directed_edns_options(seed: u64) -> Vec<String> {
    let mut r = Rng::new(seed ^ 0xED05_0B75);
    let mut v = vec![];
    let mut id = 0x4000u16;
    let mut push = |v: &mut Vec<String>, rdata: &[u8]| {
        id = id.wrapping_add(1);
        v.push(format!("rt {}", hex(&opt_message(id, rdata))));
    };
    for (family, max) in [(1u16, 32u16), (2, 128)] {
        for sp in 0..=max {
            let alen = ((sp + 7) / 8) as usize;
            for k in 0..2 {
                let scope = match k {
                    0 => (sp * 7 + 3) % (max + 1),
                    _ => *r.pick(&[0u16, sp, max]),
                };
                let mut d = vec![];
                d.extend(family.to_be_bytes());
                d.push(sp as u8);
                d.push(scope as u8);
                let mut addr = r.bytes(alen);
                if k == 1 && alen > 0 {
                    // all bits of the last octet set: non-zero both inside and beyond the prefix
                    addr[alen - 1] = 0xFF;
                }
                d.extend(addr);
                push(&mut v, &opt_option(8, &d));
            }
        }
        // every scope prefix for two fixed source prefixes
        for scope in 0..=max {
            let sp = if family == 1 { 22u16 } else { 53 };
            let alen = ((sp + 7) / 8) as usize;
            let mut d = vec![];
            d.extend(family.to_be_bytes());
            d.push(sp as u8);
            d.push(scope as u8);
            d.extend(r.bytes(alen));
            push(&mut v, &opt_option(8, &d));
        }
    }
    // Client Subnet: wrong lengths / families (refused, or trailing octets ignored)
    for d in [
        vec![0u8, 1, 24, 0, 10, 1, 2, 3],          // one octet more than the prefix needs
        vec![0, 1, 24, 0, 10, 1],                  // one octet less
        vec![0, 1, 33, 0, 10, 1, 2, 3, 4],         // prefix past the family width
        vec![0, 2, 129, 0],                        // likewise, IPv6
        vec![0, 3, 8, 0, 1],                       // unknown family
        vec![0, 1, 0, 0],                          // /0
        vec![0, 1],                                // truncated
    ] {
        push(&mut v, &opt_option(8, &d));
    }
    // NSID / unknown codes / DAU: length boundaries
    for n in [0usize, 1, 2, 15, 255, 256, 257, 1000, 4000] {
        let d = r.bytes(n);
        push(&mut v, &opt_option(3, &d));
        push(&mut v, &opt_option(10, &d));
        push(&mut v, &opt_option(65001, &d));
    }
    for algs in [
        vec![],
        vec![8u8],
        vec![15, 14, 13, 10, 8, 7, 5],
        vec![5, 5, 8, 8],
        vec![0, 1, 2, 3, 200, 255],
        vec![13, 99, 8],
    ] {
        push(&mut v, &opt_option(5, &algs));
        push(&mut v, &opt_option(6, &algs)); // DHU / N3U: unknown codes in this hickory
        push(&mut v, &opt_option(7, &algs));
    }
    // several options in one OPT (order kept), and the leniencies at the end of the option list
    let ecs = opt_option(8, &[0, 1, 21, 0, 10, 1, 0xFC]);
    let nsid = opt_option(3, b"ns1");
    let dau = opt_option(5, &[8, 13]);
    let unk = opt_option(4242, &[1, 2, 3]);
    for combo in [
        vec![&ecs, &nsid],
        vec![&nsid, &ecs, &dau],
        vec![&unk, &unk, &ecs],
        vec![&dau, &unk, &nsid, &ecs],
    ] {
        let mut d = vec![];
        for o in combo {
            d.extend(o.iter());
        }
        push(&mut v, &d);
        let mut t = d.clone();
        t.extend([0, 3]); // a last option cut after its code
        push(&mut v, &t);
        let mut t = d.clone();
        t.extend([0, 3, 0, 9, 1, 2]); // a last option shorter than declared
        push(&mut v, &t);
    }
    v
}

/// deterministic message-level cases
fn built_in_messages() -> Vec<String> {
    use crate::props::msgemit::{asm_dump, fnv1a};
    use hickory_proto::op::{Edns, Message, MessageType, OpCode, Query, ResponseCode};
    use hickory_proto::rr::{Name, RecordType};
    let mut v = vec![];
    // controls for KNOWN FINDING C02-F1 (corpus/C02/finding-badvers-alias.case: BADVERS comes back as
    // BADSIG): the other extended codes around 16 round-trip
    for rc in [ResponseCode::BADSIG, ResponseCode::BADKEY, ResponseCode::BADTIME, ResponseCode::BADCOOKIE] {
        let mut m = Message::new(7, MessageType::Response, OpCode::Query);
        m.add_query(Query::new(Name::from_ascii("example.").unwrap(), RecordType::A));
        m.metadata.response_code = rc;
        let mut e = Edns::new();
        e.set_rcode_high(rc.high());
        m.set_edns(e);
        let bytes = m.to_vec().unwrap();
        v.push(format!("asm {} {}", hex(&bytes), fnv1a(asm_dump(&m).as_bytes())));
    }
    v
}
