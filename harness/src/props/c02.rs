//! C02 — encode/decode round trip.  Stage 1: the encoder core and name compression.
//! Case lines are encoder scripts (see `encscript.rs`): sequences of names written in the various
//! name-encoding modes into one real `BinEncoder`, interleaved with the primitives a record writer
//! uses.  Compared with the Lean model byte for byte; the oracle (independent of the model) decodes
//! every written name with the real `Name::read` at its start offset and demands the identical
//! label sequence, letter case included.
use crate::common::*;
use crate::props::encscript::*;

fn nontrivial(v: &Verdict) -> bool {
    v.compressed_names >= 1 && v.checked_names >= 2
}

pub fn exec(line: &str, rec: &mut Recorder) {
    if line.starts_with("msg ") || line.starts_with("rt ") || line.starts_with("asm ") || line.starts_with("resp ") || line.starts_with("tsnew ") || line.starts_with("undec ") || line.starts_with("rtok ") || line.starts_with("svcbenc ") || line.starts_with("ednsrc ") || line.starts_with("badrec ") {
        crate::props::msgemit::exec(line, rec, |v| v.n_err == 0 && v.len > 40)
    } else {
        encscript::exec(line, rec, nontrivial)
    }
}

use crate::props::encscript;

// ---------------------------------------------------------------- generators

/// a pool of base domains; names are built as `prefix labels ++ base`
struct Family {
    bases: Vec<Vec<Vec<u8>>>,
    prefixes: Vec<Vec<u8>>,
}

fn gen_family(r: &mut Rng) -> Family {
    let nb = r.range(1, 4) as usize;
    let bases = (0..nb)
        .map(|_| {
            let k = r.range(1, 3) as usize;
            (0..k).map(|_| small_label(r)).collect()
        })
        .collect();
    let np = r.range(1, 5) as usize;
    let prefixes = (0..np).map(|_| small_label(r)).collect();
    Family { bases, prefixes }
}

fn gen_name_in(r: &mut Rng, f: &Family, distinct: Option<usize>) -> String {
    if r.chance(1, 40) {
        return "F:".into();
    }
    let base = r.pick(&f.bases).clone();
    let mut labels: Vec<Vec<u8>> = vec![];
    if let Some(i) = distinct {
        // a label no other name of the script has: forces a new candidate
        labels.push(format!("x{i}").into_bytes());
    }
    let k = match r.below(6) {
        0 => 0,
        1 | 2 => 1,
        3 | 4 => 2,
        _ => 3,
    };
    for _ in 0..k {
        labels.push(r.pick(&f.prefixes).clone());
    }
    labels.extend(base);
    if r.chance(1, 5) {
        // case-sensitive candidate matching: flip the case of some letters
        labels = labels.iter().map(|l| rand_case(r, l, 1, 3)).collect();
    }
    match name_from(&labels) {
        Some(mut s) => {
            if r.chance(1, 12) {
                s.replace_range(0..1, "R");
            }
            s
        }
        None => "F:".into(),
    }
}

fn name_op(r: &mut Rng, name: &str) -> String {
    if r.chance(1, 6) {
        format!("rd:{}:{}", r.pick(&["s", "c", "o"]), name)
    } else {
        format!("n:{}:{}", mode_tok(r), name)
    }
}

/// a record-shaped group: owner, type/class/ttl, RDLENGTH place, rdata (maybe names), back-patch
fn record_ops(r: &mut Rng, f: &Family, out: &mut Vec<String>) {
    out.push(format!("n:d:{}", gen_name_in(r, f, None)));
    out.push(format!("u16:{}", r.pick(&[1u32, 2, 5, 15, 16, 33, 6])));
    out.push("u16:1".into());
    out.push(format!("u32:{}", r.below(100000)));
    out.push("pl:u".into());
    match r.below(5) {
        0 => out.push(format!("sl:{}", hex(&r.bytes(4)))),
        1 => out.push(format!("rd:s:{}", gen_name_in(r, f, None))),
        2 => {
            out.push(format!("u16:{}", r.below(100)));
            out.push(format!("rd:s:{}", gen_name_in(r, f, None)));
        }
        3 => {
            let k = r.below(20) as usize;
            out.push(format!("cd:{}", hex(&r.bytes(k))));
        }
        _ => {
            out.push(format!("sl:{}", hex(&r.bytes(6))));
            out.push(format!("rd:o:{}", gen_name_in(r, f, None)));
        }
    }
    out.push("rpl".into());
}

fn gen_script(r: &mut Rng) -> String {
    let f = gen_family(r);
    let mut ops: Vec<String> = vec![];
    let shape = r.below(20);
    // prefix
    match r.below(8) {
        0 => ops.push("pl:12".into()),
        1 => ops.push(format!("sl:{}", hex(&r.bytes(12)))),
        2 if shape >= 4 => {
            // names below, a filler, names across / above the 0x3FFF candidate-offset limit
            for _ in 0..r.range(1, 6) {
                let n = gen_name_in(r, &f, None);
                ops.push(name_op(r, &n));
            }
            ops.push(format!("fill:{}:00", 16383 - r.below(120) as i64 - if r.chance(1, 3) { 0 } else { 40 }));
        }
        _ => {}
    }
    if r.chance(1, 10) {
        // a tiny limit: names fail at a label, at the root octet or at the pointer; the names that
        // were written must still decode (the limit is never raised again)
        ops.push(format!("max:{}", r.below(90)));
    }
    if r.chance(1, 10) {
        ops.push("canon:1".into());
    }
    if r.chance(1, 15) {
        ops.push(format!("ne:{}", r.pick(&["c", "u", "l"])));
    }
    let count = match shape {
        0 => r.range(66, 100),  // > 64 candidates
        1 => r.range(121, 170), // > 120 compressed names
        2 | 3 => r.range(30, 64),
        _ => r.range(2, 16),
    } as usize;
    let distinct = shape <= 1 || r.chance(1, 4);
    let mut emitted: Vec<String> = vec![];
    for i in 0..count {
        if shape > 3 && r.chance(1, 5) {
            record_ops(r, &f, &mut ops);
            continue;
        }
        let n = if !emitted.is_empty() && r.chance(1, 5) {
            r.pick(&emitted).clone()
        } else {
            let d = if distinct && r.chance(3, 4) { Some(i) } else { None };
            gen_name_in(r, &f, d)
        };
        emitted.push(n.clone());
        ops.push(name_op(r, &n));
        if r.chance(1, 12) {
            ops.push(format!("u16:{}", r.below(65536)));
        }
    }
    format!("enc e {}", ops.join(" "))
}

/// names of 250..255 octets sharing long suffixes
fn gen_long_script(r: &mut Rng) -> String {
    let mut tail: Vec<Vec<u8>> = vec![];
    let mut total = 1usize;
    let target = r.range(240, 255) as usize;
    while total < target {
        let room = target - total;
        if room < 2 {
            break;
        }
        let l = (room - 1).min(r.range(1, 63) as usize);
        let c = *r.pick(b"abAB");
        tail.push(vec![c; l]);
        total += l + 1;
    }
    let mut ops = vec![];
    if r.chance(1, 2) {
        ops.push(format!("fill:{}:00", 16383 - r.below(300)));
    }
    for _ in 0..r.range(2, 6) {
        let skip = r.below(tail.len() as u64) as usize;
        let mut labels: Vec<Vec<u8>> = tail[skip..].to_vec();
        if r.chance(1, 2) {
            let used: usize = labels.iter().map(|l| l.len() + 1).sum::<usize>() + 1;
            let room = 255usize.saturating_sub(used);
            if room >= 2 {
                let l = (room - 1).min(63).min(r.range(1, 63) as usize);
                labels.insert(0, vec![*r.pick(b"qQ"); l]);
            }
        }
        if r.chance(1, 6) {
            labels = labels.iter().map(|l| rand_case(r, l, 1, 8)).collect();
        }
        if let Some(n) = name_from(&labels) {
            ops.push(format!("n:{}:{}", mode_tok(r), n));
        }
    }
    format!("enc e {}", ops.join(" "))
}

/// deterministic adversarial scripts too long for the corpus files
fn built_in() -> Vec<String> {
    let mut v = vec![];
    let lab = |s: &str| hex(s.as_bytes());
    // 70 distinct suffixes: only the first 64 become candidates; re-emit all of them
    let mut ops = vec![];
    for i in 0..70 {
        ops.push(format!("n:c:F:{}.{}", lab(&format!("h{i}")), lab(&format!("d{i}"))));
    }
    for i in 0..70 {
        ops.push(format!("n:c:F:{}.{}.{}", lab("www"), lab(&format!("h{i}")), lab(&format!("d{i}"))));
    }
    v.push(format!("enc e {}", ops.join(" ")));
    // 130 names with one shared suffix: compression stops after 120 names
    let mut ops = vec![];
    for i in 0..130 {
        ops.push(format!("n:c:F:{}.{}.{}", lab(&format!("n{i}")), lab("example"), lab("com")));
    }
    ops.push(format!("n:c:F:{}.{}", lab("example"), lab("com")));
    v.push(format!("enc e {}", ops.join(" ")));
    // candidates may only be stored while offset < 0x3FFF; pointers to low offsets stay usable above
    for start in [16370usize, 16380, 16381, 16382, 16383, 16384, 16390] {
        let mut ops = vec![format!("n:c:F:{}.{}", lab("low"), lab("org")), format!("fill:{}:00", start - 9)];
        for i in 0..4 {
            ops.push(format!("n:c:F:{}.{}.{}", lab(&format!("a{i}")), lab("hi"), lab("net")));
            ops.push(format!("n:c:F:{}.{}.{}", lab(&format!("b{i}")), lab("low"), lab("org")));
        }
        v.push(format!("enc e {}", ops.join(" ")));
    }
    // coverage review: character data of 255 / 256 / 300 octets (the last two are refused, nothing is
    // written), and writes in overwrite mode that run past the end of the buffer (`resize`)
    v.push("enc e cdn:255:61 cdn:256:62 u8:7 cdn:300:63 cdn:0:64 cdn:1:65".into());
    v.push("enc e max:300 cdn:255:61 cdn:255:62 cdn:256:63 u8:1".into());
    v.push("enc wo:0000000000:2 sl:aabbccddee u8:1 u16:513".into());
    v.push("enc wo:00000000000000000000:8 u32:4294967295 sl:0102 cdn:3:7a".into());
    v.push(format!("enc wo:0000000000000000:6 n:c:F:{}.{} n:c:F:{}.{}", lab("over"), lab("end"), lab("www"), lab("over")));
    v.push("enc wo:000000:1 max:4 sl:aabbcc sl:dd u8:1".into());
    // case-sensitive matching: ABC.com must not point at abc.com
    v.push(format!(
        "enc e n:c:F:{}.{} n:c:F:{}.{} n:c:F:{}.{} n:l:F:{}.{} n:c:F:{}.{}",
        lab("abc"), lab("com"), lab("ABC"), lab("com"), lab("abc"), lab("COM"), lab("ABC"), lab("COM"), lab("abc"), lab("com")
    ));
    v
}

pub fn run(o: &Opts, rec: &mut Recorder) {
    rec.rule = "encoder scripts from a seeded structured generator: 2-170 names per script built from a small family of base domains and prefix labels (shared suffixes, exact repeats, mixed case, a label unique to the script to force new candidates, root, relative names), modes Compressed/Uncompressed/UncompressedLowercase/with_rdata_behavior x canonical_form, record-shaped groups with RDLENGTH place/back-patch, > 64 candidates, > 120 compressed names, a filler moving the offset across 0x3FFF, names of 240-255 octets, one script in ten under a limit of 0-89 octets; a case is non-trivial when at least one name was written with a compression pointer and at least two names were round-trip checked; distinct by case line.  Stage 2: assembled messages of the modelled RDATA types (asm: decode-after-encode equals the assembled value; rt: from_vec/to_vec/from_vec), messages of every RDATA variant from the C01 generator and their mutations (rt); a message case is non-trivial when it round-trips and is longer than 40 octets.  Directed families in every tier: EDNS options over their whole parameter range, fresh RecordTypeSets, per-type RDATA boundaries, SVCB key ranges, Edns rcode_high against the response code (incl. no Edns, and Edns::emit as second OPT encoder), every code of every enum an RDATA codec maps (CERT, SSHFP, TLSA, DNSKEY, DS, RRSIG, KEY flags, NSEC3, CAA, TSIG names and errors, EDNS codes), the decoder refusals above the RDATA level, messages assembled through every public constructor and Message entry point, messages holding a record that cannot be encoded (badrec), names around offset 0x3FFF, every 4-bit opcode x message type x header flag patterns x 4-bit response codes (asm + rt)".into();
    for l in o.pre_lines.clone() {
        exec(&l, rec);
    }
    rec.corpus_cases = rec.cases.len();
    if o.replay_only {
        return;
    }
    for l in built_in() {
        exec(&l, rec);
    }
    let mut r = Rng::new(o.seed);
    let n = o.n(1200, 40_000);
    for i in 0..n {
        let line = if i % 10 == 9 { gen_long_script(&mut r) } else { gen_script(&mut r) };
        exec(&line, rec);
    }
    // ---------------- stage 2: whole messages
    for l in built_in_messages() {
        exec(&l, rec);
    }
    // a directed family over the whole parameter range of the EDNS options (every tier)
    for l in directed_edns_options(o.seed) {
        rec.stat("line.rt.directed-edns");
        exec(&l, rec);
    }
    // RecordTypeSet built by hand (no original encoding): the fresh window / bitmap encoder
    for l in directed_fresh_typesets(o.seed) {
        exec(&l, rec);
    }
    // per-type boundary values of every RDATA codec (decode -> encode -> decode, model-compared)
    for l in directed_rdata_boundaries(o.seed) {
        rec.stat("line.rt.directed-rdata");
        exec(&l, rec);
    }
    // SVCB keys across the ranges of SvcParamKey (registered / unknown / private use / 65535), and the
    // Edns value's rcode_high against the message's response code (round-2 seeds 1 and 3)
    for l in directed_svcb_key_ranges() {
        rec.stat("line.directed-svcb-key-ranges");
        exec(&l, rec);
    }
    for l in directed_edns_rcode() {
        rec.stat("line.directed-edns-rcode");
        exec(&l, rec);
    }
    // coverage review: every code of every enum an RDATA codec maps, and the decoder's refusals above
    // the RDATA level
    for l in directed_enum_codes() {
        rec.stat("line.directed-enum-codes");
        exec(&l, rec);
    }
    for l in directed_decode_refusals() {
        rec.stat("line.directed-decode-refusals");
        exec(&l, rec);
    }
    for l in directed_constructors() {
        rec.stat("line.directed-constructors");
        exec(&l, rec);
    }
    // values that cannot be encoded (for a reason other than size) inside a whole message: refused as a
    // whole, no panic, in every section and position (the limits are C03's part)
    for kind in ["good", "txt256", "hinfo256", "naptr256", "caatag256", "svcborder", "alpn0", "mandatory0"] {
        for sec in ["an", "ns", "ar"] {
            for (nb, na) in [(0, 0), (3, 2)] {
                rec.stat("line.badrec");
                exec(&format!("badrec {kind} {sec} {nb} {na} L65535"), rec);
            }
        }
    }
    for kind in ["good", "tsigtime", "tsigmac", "tsigother"] {
        rec.stat("line.badrec");
        exec(&format!("badrec {kind} sig 1 1 L65535"), rec);
    }
    // names after the 0x3FFF / 0x4000 boundary of compression pointers, in whole messages
    for l in directed_offset_boundary() {
        rec.stat("line.rt.directed-offset");
        exec(&l, rec);
    }
    use crate::props::c01;
    use crate::props::msgemit::{fnv1a, gen_message_tier};
    let mut r = Rng::new(o.seed ^ 0x00C0_2B00);
    let n = o.n(600, 30_000);
    for i in 0..n {
        match i % 6 {
            // an assembled message of modelled types: must decode, after encoding, to itself; and the
            // decoded message must survive a second trip (model-compared)
            0 | 1 | 2 => {
                let Some(m) = gen_message_tier(&mut r, rec, i % 60 == 0) else { continue };
                let Ok(bytes) = m.to_vec() else {
                    rec.stat("gen.emit-failed");
                    continue;
                };
                let h = hex(&bytes);
                let want = crate::props::msgemit::asm_dump(&m);
                if std::env::var("HK_DEBUG").is_ok() {
                    eprintln!("ASM {} {}", fnv1a(want.as_bytes()), want);
                }
                exec(&format!("asm {h} {}", fnv1a(want.as_bytes())), rec);
                exec(&format!("rt {h}"), rec);
            }
            // every RDATA variant hickory knows (DNSSEC types, SVCB, CAA, …; implementation-only when
            // a record has no modelled emitter)
            3 | 4 => {
                let bytes = c01::gen_message(&mut r, rec, false, false);
                exec(&format!("rt {}", hex(&bytes)), rec);
            }
            // "decode what the C01 generator produced and re-encode": mutated encodings
            _ => {
                let mut bytes = c01::gen_message(&mut r, rec, i % 12 == 5, false);
                for _ in 0..r.range(1, 3) {
                    c01::mutate(&mut r, &mut bytes);
                }
                exec(&format!("rt {}", hex(&bytes)), rec);
            }
        }
    }
}

/// A response with the question `example. A` and one answer record (owner = pointer to the question
/// name) of type `ty` with the given RDATA octets, as wire bytes.
fn rec_message(id: u16, ty: u16, rdata: &[u8]) -> Vec<u8> {
    let mut b = vec![];
    b.extend(id.to_be_bytes());
    b.extend([0x81, 0x80]);
    b.extend([0, 1, 0, 1, 0, 0, 0, 0]);
    b.extend([7]);
    b.extend(b"example");
    b.extend([0, 0, 1, 0, 1]);
    b.extend([0xC0, 0x0C]);
    b.extend(ty.to_be_bytes());
    b.extend([0, 1, 0, 0, 0, 60]);
    b.extend((rdata.len() as u16).to_be_bytes());
    b.extend(rdata);
    b
}

/// wire names for the boundaries: root, a pointer to the question name, a plain mixed-case name,
/// a 63-octet label, a 255-octet name
fn boundary_names() -> Vec<Vec<u8>> {
    let mut long = vec![];
    for (i, n) in [63usize, 63, 63, 61].iter().enumerate() {
        long.push(*n as u8);
        long.extend(std::iter::repeat(b'a' + i as u8).take(*n));
    }
    long.push(0);
    assert_eq!(long.len(), 255);
    let mut l63 = vec![63u8];
    l63.extend(std::iter::repeat(b'L').take(63));
    l63.extend([0xC0, 0x0C]);
    vec![vec![0], vec![0xC0, 0x0C], b"\x03WwW\x07eXample\x00".to_vec(), b"\x01a\xC0\x0C".to_vec(), l63, long]
}

/// Directed family (stage 4): for EVERY RDATA codec, the boundary values of every field — empty and
/// maximal octet strings, 255-octet character strings, 0 and 65535 (and i32 extremes), every kind of
/// embedded name, lengths one short / one long, the refusals of each decoder; SVCB key order /
/// duplicates / every parameter kind; type bitmaps with windows 0..255, empty and over-long windows.
fn directed_rdata_boundaries(seed: u64) -> Vec<String> {
    let mut r = Rng::new(seed ^ 0xB0DA_7A01);
    let mut v = vec![];
    let mut id = 0x5000u16;
    let mut push = |v: &mut Vec<String>, ty: u16, rdata: &[u8]| {
        id = id.wrapping_add(1);
        v.push(format!("rt {}", hex(&rec_message(id, ty, rdata))));
    };
    let names = boundary_names();
    let u16s = [0u16, 1, 255, 256, 32768, 65535];
    let cat = |parts: &[&[u8]]| -> Vec<u8> { parts.iter().flat_map(|p| p.iter().copied()).collect() };
    // A / AAAA
    for n in [0usize, 3, 4, 5] {
        push(&mut v, 1, &vec![0xFF; n]);
    }
    push(&mut v, 1, &[0, 0, 0, 0]);
    for n in [15usize, 16, 17] {
        push(&mut v, 28, &vec![0xFE; n]);
    }
    push(&mut v, 28, &[0; 16]);
    // name-only types, MX, SRV, NAPTR replacement, RRSIG signer, NSEC next, SVCB target
    for nmw in &names {
        for ty in [2u16, 5, 12, 65305] {
            push(&mut v, ty, nmw);
        }
        for x in [0u16, 65535] {
            push(&mut v, 15, &cat(&[&x.to_be_bytes(), nmw]));
            push(&mut v, 33, &cat(&[&x.to_be_bytes(), &x.to_be_bytes(), &x.to_be_bytes(), nmw]));
            push(&mut v, 35, &cat(&[&x.to_be_bytes(), &x.to_be_bytes(), &[1, b'U'], &[0], &[0], nmw]));
            push(&mut v, 64, &cat(&[&x.to_be_bytes(), nmw]));
            push(&mut v, 65, &cat(&[&x.to_be_bytes(), nmw, &[0, 3, 0, 2, 1, 187]]));
        }
        push(&mut v, 47, &cat(&[nmw, &[0, 1, 0x40]]));
        push(&mut v, 47, nmw);
        let fixed = [0u8, 1, 8, 2, 0, 0, 14, 16, 0xFF, 0xFF, 0xFF, 0xFF, 0, 0, 0, 0, 0xAB, 0xCD];
        push(&mut v, 46, &cat(&[&fixed, nmw, &[1, 2, 3]]));
        push(&mut v, 46, &cat(&[&fixed, nmw]));
        push(&mut v, 24, &cat(&[&fixed, nmw, &[9]]));
        // SOA with both names of this kind and the i32 extremes
        for ints in [[0u32, 0, 0, 0, 0], [u32::MAX, 0x8000_0000, 0x7FFF_FFFF, 0xFFFF_FFFF, u32::MAX]] {
            let mut d = cat(&[nmw, nmw]);
            for i in ints {
                d.extend(i.to_be_bytes());
            }
            push(&mut v, 6, &d);
        }
    }
    // TXT / HINFO / NAPTR strings: empty, one octet, 255 octets, many strings
    let s255: Vec<u8> = std::iter::once(255u8).chain(std::iter::repeat(b'z').take(255)).collect();
    for d in [vec![0u8], vec![1, b'x'], s255.clone(), cat(&[&s255, &s255, &[0], &[2, b'a', b'b']]), vec![5, b'a'], vec![]] {
        push(&mut v, 16, &d);
    }
    for (c, o) in [(&[0u8][..], &[0u8][..]), (&s255[..], &[0u8][..]), (&[0u8][..], &s255[..]), (&s255[..], &s255[..]), (&[3, b'c', b'p', b'u'][..], &[][..])] {
        push(&mut v, 13, &cat(&[c, o]));
    }
    for fl in [&[0u8][..], &[1, b'a'][..], &[2, b'A', b'9'][..], &[1, b'-'][..], &s255[..]] {
        push(&mut v, 35, &cat(&[&[0, 1, 0, 2], fl, &[0], &s255, &[0]]));
        push(&mut v, 35, &cat(&[&[0, 1, 0, 2], fl, &s255, &[0], &[0xC0, 0x0C]]));
    }
    // NULL / unknown types / OPENPGPKEY: 1 octet, a few, long
    for n in [1usize, 2, 255, 256, 4000] {
        let d = r.bytes(n);
        for ty in [10u16, 99, 65280, 61, 3] {
            push(&mut v, ty, &d);
        }
    }
    // the fixed-field blob types: every fixed field at 0 / max, the trailing blob empty / 1 / long
    for blob in [0usize, 1, 32, 600] {
        let tail = r.bytes(blob);
        for x in [0u8, 1, 255] {
            let w = [x, x];
            push(&mut v, 43, &cat(&[&w, &[x, x], &tail]));
            push(&mut v, 59, &cat(&[&w, &[x, x], &tail]));
            for proto in [3u8, 2, 0] {
                push(&mut v, 48, &cat(&[&w, &[proto, x], &tail]));
                push(&mut v, 60, &cat(&[&w, &[proto, x], &tail]));
            }
            push(&mut v, 52, &cat(&[&[x, x, x], &tail]));
            push(&mut v, 53, &cat(&[&[x, x, x], &tail]));
            push(&mut v, 44, &cat(&[&[x, x], &tail]));
            push(&mut v, 37, &cat(&[&w, &w, &[x], &tail]));
        }
    }
    // KEY: every flags word shape (reserved bits, extended flag), protocols, algorithms
    for fl in [0u16, 0x0001, 0x000F, 0x0100, 0x0300, 0x4000, 0x8000, 0xC000, 0x0010, 0x0400, 0x2000, 0x1000, 0xFFFF] {
        for (p, a) in [(3u8, 8u8), (0, 0), (255, 255)] {
            push(&mut v, 25, &cat(&[&fl.to_be_bytes(), &[p, a], &[1, 2, 3]]));
        }
    }
    push(&mut v, 25, &[0, 0, 3]);
    // NSEC3PARAM / NSEC3: hash algorithm, flags, iterations, salt and hash lengths 0 / 1 / 255 / over
    for alg in [1u8, 0, 2] {
        for fl in [0u8, 1, 2, 255] {
            push(&mut v, 51, &[alg, fl, 0, 10, 0]);
        }
    }
    for it in u16s {
        for sl in [0usize, 1, 255] {
            let salt = r.bytes(sl);
            push(&mut v, 51, &cat(&[&[1, 1], &it.to_be_bytes(), &[sl as u8], &salt]));
            for hl in [0usize, 1, 20, 255] {
                let hash = r.bytes(hl);
                push(&mut v, 50, &cat(&[&[1, 0], &it.to_be_bytes(), &[sl as u8], &salt, &[hl as u8], &hash, &[0, 1, 0x40]]));
            }
        }
    }
    push(&mut v, 51, &[1, 0, 0, 1, 5, 1, 2]); // salt shorter than declared
    push(&mut v, 50, &[1, 0, 0, 1, 0, 9, 1, 2]); // hash shorter than declared
    // CAA: flags, tag lengths 0 / 1 / 15 / 16, non-alphanumeric tag, empty / long value
    for fl in [0u8, 1, 127, 128, 255] {
        for tl in [0usize, 1, 15, 16] {
            let tag: Vec<u8> = (0..tl).map(|i| b"aZ09"[i % 4]).collect();
            for vl in [0usize, 1, 300] {
                push(&mut v, 257, &cat(&[&[fl, tl as u8], &tag, &r.bytes(vl)]));
            }
        }
    }
    push(&mut v, 257, &[0, 5, b'i', b's', b'-', b'u', b'e', 1]);
    push(&mut v, 257, &[0, 9, b'i', b's']);
    // CSYNC: flags (low two bits, the masked bits, the unmasked high octet), serial extremes
    for fl in [0u16, 1, 2, 3, 4, 0x80, 0xFC, 0x0100, 0xFF00, 0xFF03, 0xFFFF] {
        for serial in [0u32, u32::MAX] {
            push(&mut v, 62, &cat(&[&serial.to_be_bytes(), &fl.to_be_bytes(), &[0, 1, 0x40]]));
        }
    }
    // type bitmaps (NSEC with root next name): every window number, bitmap lengths 0 / 1 / 32 / 33,
    // empty bitmaps, windows out of order / repeated, a bitmap cut short, bit 0, the last bit
    for w in [0u8, 1, 2, 127, 128, 254, 255] {
        for bl in [0usize, 1, 2, 31, 32, 33] {
            let mut bm = vec![0u8; bl];
            if bl > 0 {
                bm[0] = 0x80;
                bm[bl - 1] |= 0x01;
            }
            push(&mut v, 47, &cat(&[&[0], &[w, bl as u8], &bm]));
        }
        push(&mut v, 47, &[0, w, 3, 0, 0, 0]); // a window with no type: an empty window
        push(&mut v, 47, &[0, w, 2, 0xFF]); // bitmap shorter than declared
        push(&mut v, 47, &[0, w]); // no length octet
        push(&mut v, 62, &cat(&[&[0, 0, 0, 1, 0, 3], &[w, 1, 0xFF]]));
        push(&mut v, 50, &cat(&[&[1, 1, 0, 5, 0, 1, 7], &[w, 32], &[0xFF; 32]]));
    }
    for ws in [&[0u8, 1][..], &[1, 0][..], &[3, 3][..], &[0, 255, 1][..], &[255, 0][..]] {
        let mut d = vec![0u8];
        for w in ws {
            d.extend([*w, 1, 0x42]);
        }
        push(&mut v, 47, &d);
    }
    let mut all = vec![0u8];
    for w in 0..=255u8 {
        all.extend([w, 1, 0x01]);
    }
    push(&mut v, 47, &all);
    // SVCB / HTTPS parameters: every key kind at its boundaries, key order, duplicates
    let p = |k: u16, val: &[u8]| -> Vec<u8> { cat(&[&k.to_be_bytes(), &(val.len() as u16).to_be_bytes(), val]) };
    let head = [0u8, 1, 0];
    let long_id: Vec<u8> = std::iter::once(255u8).chain(std::iter::repeat(b'h').take(255)).collect();
    let params: Vec<Vec<u8>> = vec![
        p(0, &[]), p(0, &[0, 1]), p(0, &[0, 1, 0, 4, 0, 6]), p(0, &[0]), p(0, &[0, 1, 0]),
        p(1, &[]), p(1, &[2, b'h', b'2']), p(1, &[2, b'h', b'2', 2, b'h', b'3']), p(1, &[0]), p(1, &long_id),
        p(1, &[2, 0xC3, 0x28]), p(1, &[3, b'h']), p(1, &[2, 0xC3, 0xA9]),
        p(2, &[]), p(2, &[0]),
        p(3, &[]), p(3, &[1]), p(3, &[1, 187]), p(3, &[0, 0]), p(3, &[0xFF, 0xFF]), p(3, &[1, 187, 9]), p(3, &[1, 187, 9, 9, 9]),
        p(4, &[]), p(4, &[192, 0, 2, 1]), p(4, &[192, 0, 2, 1, 192, 0, 2, 2]), p(4, &[192, 0, 2]), p(4, &[192, 0, 2, 1, 5]),
        p(5, &[]), p(5, &[1]), p(5, &r.bytes(300)),
        p(6, &[]), p(6, &[0x20; 16]), p(6, &[0x20; 32]), p(6, &[0x20; 15]), p(6, &[0x20; 17]),
        p(7, &[]), p(7, &[1, 2, 3]), p(65279, &[1]), p(65280, &[]), p(65280, &[7]), p(65534, &[7, 7]), p(65535, &[]), p(65535, &[1]),
        p(1000, &r.bytes(2000)),
    ];
    for ty in [64u16, 65] {
        push(&mut v, ty, &head);
        push(&mut v, ty, &[0, 0, 0]); // AliasMode
        for q in &params {
            push(&mut v, ty, &cat(&[&head, q]));
        }
        // order: increasing, equal (duplicate), decreasing; trailing octets after the last parameter
        let (a1, a3, a4, a7) = (p(1, &[2, b'h', b'2']), p(3, &[1, 187]), p(4, &[192, 0, 2, 1]), p(7, &[9]));
        for combo in [vec![&a1, &a3, &a4, &a7], vec![&a1, &a1], vec![&a3, &a1], vec![&a7, &a4], vec![&a1, &a3, &a3], vec![&a4, &a7, &a1]] {
            let mut d = head.to_vec();
            for q in combo {
                d.extend(q.iter());
            }
            push(&mut v, ty, &d);
            for extra in 1..=3usize {
                let mut t = d.clone();
                t.extend(std::iter::repeat(0u8).take(extra));
                push(&mut v, ty, &t);
            }
        }
        // a parameter whose declared length runs past the RDATA
        push(&mut v, ty, &cat(&[&head, &[0, 3, 0, 9, 1, 187]]));
    }
    v
}

/// Whole messages (stage 4) in which names are written just below, at and above offset 0x3FFF /
/// 0x4000 (the last offset a compression pointer can address / a candidate is stored at) and are
/// reused afterwards; and messages with more than 120 names and more than 64 suffix candidates.
fn directed_offset_boundary() -> Vec<String> {
    use hickory_proto::op::{Message, MessageType, OpCode, Query};
    use hickory_proto::rr::rdata::{A, NS, NULL};
    use hickory_proto::rr::{Name, RData, Record, RecordType};
    let nm = |l: &[&str]| Name::from_labels(l.iter().map(|x| x.as_bytes())).unwrap();
    let mut v = vec![];
    for delta in [-40i32, -20, -12, -3, -2, -1, 0, 1, 2, 3, 12, 30] {
        let mut m = Message::new(0x3F00u16.wrapping_add(delta as u16), MessageType::Response, OpCode::Query);
        m.add_query(Query::new(nm(&["q", "example"]), RecordType::NS));
        m.add_answer(Record::from_rdata(nm(&["early", "example"]), 60, RData::NS(NS(nm(&["ns", "early", "example"])))));
        // filler so that the next record's owner name starts at 0x3FFF + delta
        let so_far = m.to_vec().unwrap().len();
        let target = (0x3FFF + delta) as usize;
        let mut left = target - so_far;
        while left > 0 {
            // a NULL record with a pointer owner: 2 + 10 + n octets
            let n = (left.saturating_sub(12)).min(4000);
            if left < 13 {
                break;
            }
            m.add_answer(Record::from_rdata(nm(&["q", "example"]), 60, RData::NULL(NULL::with(vec![0x55; n.max(1)]))));
            left = target.saturating_sub(m.to_vec().unwrap().len());
        }
        // names written around the boundary, each reused right after and in the next sections
        m.add_answer(Record::from_rdata(nm(&["at", "edge", "example"]), 60, RData::NS(NS(nm(&["ns", "at", "edge", "example"])))));
        m.add_answer(Record::from_rdata(nm(&["at", "edge", "example"]), 60, RData::NS(NS(nm(&["ns2", "at", "edge", "example"])))));
        m.add_authority(Record::from_rdata(nm(&["edge", "example"]), 60, RData::NS(NS(nm(&["ns", "at", "edge", "example"])))));
        m.add_authority(Record::from_rdata(nm(&["beyond", "edge", "example"]), 60, RData::NS(NS(nm(&["ns", "early", "example"])))));
        m.add_additional(Record::from_rdata(nm(&["ns", "at", "edge", "example"]), 60, RData::A(A::new(10, 0, 0, 1))));
        m.add_additional(Record::from_rdata(nm(&["ns", "beyond", "edge", "example"]), 60, RData::A(A::new(10, 0, 0, 2))));
        if let Ok(b) = m.to_vec() {
            v.push(format!("rt {}", hex(&b)));
        }
    }
    // > 120 names (COMPRESSED_NAME_LIMIT) and > 64 suffix candidates, with reuse before and after both
    for (n, labels) in [(59usize, 1usize), (60, 1), (61, 1), (118, 1), (119, 1), (120, 1), (121, 1), (130, 1), (31, 2), (32, 2), (33, 2), (20, 3), (21, 3), (22, 3)] {
        let mut m = Message::new(0x7800 + n as u16, MessageType::Response, OpCode::Query);
        m.add_query(Query::new(nm(&["q", "example"]), RecordType::A));
        for i in 0..n {
            let ls: Vec<String> = (0..labels).map(|j| format!("n{i}x{j}")).collect();
            let mut refs: Vec<&str> = ls.iter().map(|x| x.as_str()).collect();
            refs.push("example");
            m.add_answer(Record::from_rdata(nm(&refs), 60, RData::A(A::new(10, 1, (i / 256) as u8, i as u8))));
        }
        // reuse of the first, a middle and the last names, and of fresh ones, after the limits
        for (k, who) in [0usize, n / 2, n - 1].iter().enumerate() {
            let ls: Vec<String> = (0..labels).map(|j| format!("n{who}x{j}")).collect();
            let mut refs: Vec<&str> = vec!["www"];
            refs.extend(ls.iter().map(|x| x.as_str()));
            refs.push("example");
            m.add_authority(Record::from_rdata(nm(&refs[1..]), 60, RData::NS(NS(nm(&refs)))));
            m.add_additional(Record::from_rdata(nm(&refs), 60, RData::A(A::new(10, 2, 0, k as u8))));
        }
        m.add_additional(Record::from_rdata(nm(&["fresh", "tail", "example"]), 60, RData::A(A::new(10, 3, 0, 1))));
        m.add_additional(Record::from_rdata(nm(&["www", "fresh", "tail", "example"]), 60, RData::A(A::new(10, 3, 0, 2))));
        if let Ok(b) = m.to_vec() {
            v.push(format!("rt {}", hex(&b)));
        }
    }
    v
}

/// Directed family: SvcParams whose keys are drawn from ALL range classes of `SvcParamKey` — 0..6
/// registered, 7..65279 unknown (incl. 7 and 65279), 65280..65534 private use, 65535 — in every pairwise
/// combination and order, as wire input (`rtok`: strictly increasing, must decode and round-trip;
/// `undec`: equal / decreasing, must be refused) and as values to encode (`svcbenc`); plus chains
/// across all the ranges.
fn directed_svcb_key_ranges() -> Vec<String> {
    let keys = [0u16, 1, 2, 3, 4, 5, 6, 7, 8, 1000, 65279, 65280, 65281, 65534, 65535];
    let wire_val = |k: u16| -> Vec<u8> {
        match k {
            0 => vec![0, 1],
            1 => vec![2, b'h', b'2'],
            2 => vec![],
            3 => vec![1, 187],
            4 => vec![192, 0, 2, 1],
            5 => vec![1, 2, 3],
            6 => vec![0x20, 1, 0x0d, 0xb8, 0, 0, 0, 0, 0, 0, 0, 0, 0, 0, 0, 1],
            _ => vec![(k % 256) as u8, 7],
        }
    };
    let rdata = |ks: &[u16]| -> Vec<u8> {
        let mut d = vec![0u8, 1, 0];
        for k in ks {
            let v = wire_val(*k);
            d.extend(k.to_be_bytes());
            d.extend((v.len() as u16).to_be_bytes());
            d.extend(v);
        }
        d
    };
    let show = |ks: &[u16]| ks.iter().map(|k| k.to_string()).collect::<Vec<_>>().join(",");
    let mut v = vec![];
    let mut id = 0x5800u16;
    let mut chains: Vec<Vec<u16>> = vec![];
    for a in keys {
        for b in keys {
            chains.push(vec![a, b]);
        }
    }
    chains.push(keys.to_vec());
    chains.push(vec![6, 7, 65280, 65535]);
    chains.push(vec![7, 65279, 65280, 65534, 65535]);
    chains.push(vec![1, 3, 7, 65535]);
    chains.push(vec![65280, 7]);
    chains.push(vec![65535, 65279]);
    chains.push(vec![0, 65535, 7]);
    chains.push(keys.iter().rev().copied().collect());
    for (i, ks) in chains.iter().enumerate() {
        let ty = if i % 3 == 2 { 65u16 } else { 64 };
        let increasing = ks.windows(2).all(|w| w[0] < w[1]);
        id = id.wrapping_add(1);
        let wire = hex(&rec_message(id, ty, &rdata(ks)));
        v.push(format!("{} {wire}", if increasing { "rtok" } else { "undec" }));
        v.push(format!("svcbenc {ty} {}", show(ks)));
    }
    v.push("svcbenc 64 -".into());
    v
}

/// A response with the question `example. A`, the given answer records (owner = pointer to the
/// question name, class IN, TTL 60) and the given raw additional records (complete wire records).
fn recs_message(id: u16, answers: &[(u16, Vec<u8>)], additionals: &[Vec<u8>]) -> Vec<u8> {
    let mut b = vec![];
    b.extend(id.to_be_bytes());
    b.extend([0x81, 0x80]);
    b.extend([0, 1]);
    b.extend((answers.len() as u16).to_be_bytes());
    b.extend([0, 0]);
    b.extend((additionals.len() as u16).to_be_bytes());
    b.extend([7]);
    b.extend(b"example");
    b.extend([0, 0, 1, 0, 1]);
    for (ty, rdata) in answers {
        b.extend([0xC0, 0x0C]);
        b.extend(ty.to_be_bytes());
        b.extend([0, 1, 0, 0, 0, 60]);
        b.extend((rdata.len() as u16).to_be_bytes());
        b.extend(rdata);
    }
    for a in additionals {
        b.extend(a);
    }
    b
}

/// a complete wire record: owner, type, class, ttl, rdata
fn raw_record(owner: &[u8], ty: u16, class: u16, ttl: u32, rdata: &[u8]) -> Vec<u8> {
    let mut b = owner.to_vec();
    b.extend(ty.to_be_bytes());
    b.extend(class.to_be_bytes());
    b.extend(ttl.to_be_bytes());
    b.extend((rdata.len() as u16).to_be_bytes());
    b.extend(rdata);
    b
}

fn tsig_rdata(alg: &[u8], time: u64, fudge: u16, mac: &[u8], oid: u16, error: u16, other: &[u8]) -> Vec<u8> {
    let mut d = alg.to_vec();
    d.extend(&time.to_be_bytes()[2..]);
    d.extend(fudge.to_be_bytes());
    d.extend((mac.len() as u16).to_be_bytes());
    d.extend(mac);
    d.extend(oid.to_be_bytes());
    d.extend(error.to_be_bytes());
    d.extend((other.len() as u16).to_be_bytes());
    d.extend(other);
    d
}

fn wire_name(s: &str) -> Vec<u8> {
    let mut b = vec![];
    for l in s.split('.').filter(|l| !l.is_empty()) {
        b.push(l.len() as u8);
        b.extend(l.as_bytes());
    }
    b.push(0);
    b
}

/// Directed family (coverage review): every CODE of every enumeration that an RDATA codec maps to a
/// Rust enum and back (`From<u8>` / `From<Enum>` pairs: CERT type and algorithm, SSHFP algorithm and
/// fingerprint type, TLSA / SMIMEA usage, selector and matching, DNSKEY / CDNSKEY / DS / CDS / RRSIG /
/// SIG / KEY algorithm and digest type, KEY flags, protocol, NSEC3 hash algorithm, TSIG algorithm names
/// and error codes, EDNS option codes, CAA flags and tags).  One record per code, many records per
/// message; every message is a valid encoding, so a refusal is an oracle failure (`rtok`): hickory refuses no code
/// of any of these enumerations (unknown codes are kept as `Unknown(code)` / `Unassigned(code)`).
fn directed_enum_codes() -> Vec<String> {
    let mut v = vec![];
    let idc = std::cell::Cell::new(0x6000u16);
    let next_id = || {
        idc.set(idc.get().wrapping_add(1));
        idc.get()
    };
    let msg = |v: &mut Vec<String>, kind: &str, answers: Vec<(u16, Vec<u8>)>| {
        // at most 200 records per message
        for chunk in answers.chunks(200) {
            v.push(format!("{kind} {}", hex(&recs_message(next_id(), chunk, &[]))));
        }
    };
    let all8: Vec<u8> = (0..=255u8).collect();
    // CERT: certificate type (u16) and algorithm (u8)
    let cert_types: Vec<u16> = (0..=12u16).chain([252, 253, 254, 255, 256, 257, 65279, 65280, 65281, 65533, 65534, 65535]).collect();
    msg(&mut v, "rtok", cert_types.iter().map(|t| (37u16, [&t.to_be_bytes()[..], &[0x12, 0x34, 8, 1, 2, 3]].concat())).collect());
    msg(&mut v, "rtok", all8.iter().map(|a| (37u16, vec![0, 1, 0xAB, 0xCD, *a, 9, 9])).collect());
    // SSHFP: algorithm x fingerprint type
    msg(&mut v, "rtok", all8.iter().map(|a| (44u16, vec![*a, 1, 0xDE, 0xAD])).collect());
    msg(&mut v, "rtok", all8.iter().map(|f| (44u16, vec![4, *f, 0xBE, 0xEF])).collect());
    // TLSA / SMIMEA: usage, selector, matching
    for ty in [52u16, 53] {
        msg(&mut v, "rtok", all8.iter().map(|x| (ty, vec![*x, 1, 1, 0xAA])).collect());
        msg(&mut v, "rtok", all8.iter().map(|x| (ty, vec![3, *x, 1, 0xBB])).collect());
        msg(&mut v, "rtok", all8.iter().map(|x| (ty, vec![3, 1, *x, 0xCC])).collect());
    }
    // DNSKEY / CDNSKEY / KEY: algorithm; flags one bit and two bits at a time; KEY protocol
    for ty in [48u16, 60] {
        msg(&mut v, "rtok", all8.iter().map(|a| (ty, vec![1, 0, 3, *a, 1, 2, 3, 4])).collect());
        let mut flags: Vec<u16> = vec![0, 0xFFFF, 0x0100, 0x0101, 0x0080, 0x0180, 0x0181];
        for i in 0..16 {
            flags.push(1 << i);
            flags.push(!(1u16 << i));
        }
        msg(&mut v, "rtok", flags.iter().map(|f| (ty, [&f.to_be_bytes()[..], &[3, 8, 9, 9, 9]].concat())).collect());
        // protocol octet (RFC 4034: must be 3)
        for p in [0u8, 1, 2, 3, 4, 255] {
            msg(&mut v, if p == 3 { "rtok" } else { "undec" }, vec![(ty, vec![1, 0, p, 8, 7, 7])]);
        }
    }
    msg(&mut v, "rtok", all8.iter().map(|a| (25u16, vec![0, 0, 3, *a, 1, 2, 3, 4])).collect());
    msg(&mut v, "rtok", all8.iter().map(|p| (25u16, vec![0, 0, *p, 8, 5, 6])).collect());
    {
        // KEY flags: A/C (bits 0-1), NAMTYP (bits 6-7) and SIG (bits 12-15) are kept, every other bit is
        // reserved (or the unsupported extension flag) and refused: ALL 256 valid words in one message,
        // every word with one invalid bit on its own
        let mut valid: Vec<u16> = vec![];
        for ac in 0..4u16 {
            for nt in 0..4u16 {
                for sg in 0..16u16 {
                    valid.push((ac << 14) | (nt << 8) | sg);
                }
            }
        }
        msg(&mut v, "rtok", valid.iter().map(|f| (25u16, [&f.to_be_bytes()[..], &[3, 8, 1, 1]].concat())).collect());
        for bit in [0x2000u16, 0x1000, 0x0800, 0x0400, 0x0080, 0x0040, 0x0020, 0x0010] {
            for base in [0u16, 0xC30F] {
                msg(&mut v, "undec", vec![(25u16, [&(base | bit).to_be_bytes()[..], &[3, 8, 1, 1]].concat())]);
            }
        }
        msg(&mut v, "undec", vec![(25u16, vec![0xFF, 0xFF, 3, 8, 1, 1])]);
    }
    // DS / CDS: algorithm, digest type
    for ty in [43u16, 59] {
        msg(&mut v, "rtok", all8.iter().map(|a| (ty, vec![0x30, 0x39, *a, 2, 0xAA, 0xBB])).collect());
        msg(&mut v, "rtok", all8.iter().map(|d| (ty, vec![0x30, 0x39, 8, *d, 0xCC, 0xDD])).collect());
    }
    // RRSIG / SIG: algorithm; type covered at the boundaries of RecordType
    for ty in [46u16, 24] {
        let sig = |tc: u16, alg: u8| -> Vec<u8> {
            let mut d = tc.to_be_bytes().to_vec();
            d.extend([alg, 2]);
            d.extend(300u32.to_be_bytes());
            d.extend(0x7000_0000u32.to_be_bytes());
            d.extend(0x6000_0000u32.to_be_bytes());
            d.extend([0x12, 0x34]);
            d.extend(wire_name("signer.example"));
            d.extend([1, 2, 3, 4]);
            d
        };
        let tcs: Vec<u16> = (0..=70u16).chain([99, 249, 250, 251, 252, 253, 254, 255, 256, 257, 258, 32768, 32769, 65279, 65280, 65534, 65535]).collect();
        if ty == 24 {
            // SIG is only accepted in the additional section
            let own = [0xC0u8, 0x0C];
            for chunk in all8.chunks(128) {
                let id = next_id();
                let adds: Vec<Vec<u8>> = chunk.iter().map(|a| raw_record(&own, 24, 255, 0, &sig(0, *a))).collect();
                v.push(format!("rtok {}", hex(&recs_message(id, &[], &adds))));
            }
            let id = next_id();
            let adds: Vec<Vec<u8>> = tcs.iter().map(|t| raw_record(&own, 24, 255, 0, &sig(*t, 8))).collect();
            v.push(format!("rtok {}", hex(&recs_message(id, &[], &adds))));
            continue;
        }
        msg(&mut v, "rtok", all8.iter().map(|a| (ty, sig(1, *a))).collect());
        msg(&mut v, "rtok", tcs.iter().map(|t| (ty, sig(*t, 8))).collect());
    }
    // NSEC3 / NSEC3PARAM: hash algorithm (only 1 is defined), flags
    for h in [0u8, 1, 2, 3, 127, 128, 254, 255] {
        let kind = if h == 1 { "rtok" } else { "undec" };
        msg(&mut v, kind, vec![(50u16, vec![h, 0, 0, 5, 2, 0xAB, 0xCD, 4, 1, 2, 3, 4, 0, 1, 0x40])]);
        msg(&mut v, kind, vec![(51u16, vec![h, 0, 0, 5, 2, 0xAB, 0xCD])]);
    }
    for f in [0u8, 1, 2, 3, 0x80, 0xFE, 0xFF] {
        let kind = if f <= 1 { "rtok" } else { "undec" };
        msg(&mut v, kind, vec![(50u16, vec![1, f, 0xFF, 0xFF, 0, 1, 9, 0, 1, 0x40])]);
        msg(&mut v, kind, vec![(51u16, vec![1, f, 0xFF, 0xFF, 0])]);
    }
    // CAA: flags (issuer critical = bit 7, the rest reserved), tags in every spelling
    msg(&mut v, "rtok", all8.iter().map(|f| (257u16, [&[*f, 5][..], b"issue", b"ca.example"].concat())).collect());
    for tag in ["issue", "ISSUE", "Issue", "issuewild", "IssueWild", "iodef", "IODEF", "contactemail", "x", "a1", "issuemail", "0"] {
        for val in [&b""[..], b";", b"ca.example; k=v", b"https://iodef.example/", b"mailto:a@example", b"\xff\x00"] {
            msg(&mut v, "rtok", vec![(257u16, [&[0u8, tag.len() as u8][..], tag.as_bytes(), val].concat())]);
        }
    }
    // TSIG: every algorithm name (RFC 8945 section 6 + gss-tsig + the MD5 registry name), spellings,
    // unknown names; error codes
    let key = wire_name("key.example");
    let algs = [
        "HMAC-MD5.SIG-ALG.REG.INT", "hmac-md5.sig-alg.reg.int", "gss-tsig", "GSS-TSIG", "hmac-sha1", "HMAC-SHA1", "hmac-sha224", "hmac-sha256",
        "HMAC-SHA256", "Hmac-Sha256", "hmac-sha256-128", "hmac-sha384", "hmac-sha384-192", "hmac-sha512", "hmac-sha512-256", "hmac-sha3",
        "unknown-alg.example", "hmac-sha256.example", "a",
    ];
    for a in algs {
        let id = next_id();
        let rd = tsig_rdata(&wire_name(a), 0x0000_6512_3456, 300, &[0xAA; 32], id, 0, &[]);
        v.push(format!("rtok {}", hex(&recs_message(id, &[(1, vec![192, 0, 2, 1])], &[raw_record(&key, 250, 255, 0, &rd)]))));
    }
    // the root as algorithm name
    let id = next_id();
    v.push(format!("rtok {}", hex(&recs_message(id, &[], &[raw_record(&key, 250, 255, 0, &tsig_rdata(&[0], 1, 2, &[], id, 0, &[]))]))));
    for e in (0..=25u16).chain([255, 256, 3841, 65534, 65535]) {
        let id = next_id();
        let other: &[u8] = if e == 18 { &[0, 0, 0x65, 0x12, 0x34, 0x60] } else { &[] };
        let rd = tsig_rdata(&wire_name("hmac-sha256"), 0xFFFF_FFFF_FFFF, 65535, &[1, 2, 3], 0xFFFF, e, other);
        v.push(format!("rtok {}", hex(&recs_message(id, &[], &[raw_record(&key, 250, 255, 0, &rd)]))));
    }
    // EDNS option codes 0..=20 and the ends of the range, each with an empty and a 3-octet payload
    // (whether a payload is acceptable depends on the code: `rt`)
    for c in (0..=20u16).chain([26946, 65000, 65001, 65534, 65535]) {
        for data in [&[][..], &[8, 13, 15][..], &[0, 1, 24, 0, 192, 0, 2][..]] {
            let id = next_id();
            v.push(format!("rt {}", hex(&opt_message(id, &opt_option(c, data)))));
        }
    }
    v
}

/// Directed family (coverage review): messages the DECODER must refuse for reasons above the RDATA
/// codecs — a record after the TSIG, a second OPT, an OPT whose owner is not the root, type 0 with
/// RDATA, OPT / SIG / TSIG outside the additional section, an empty RDATA outside an UPDATE, a name of
/// more than 255 octets assembled through pointers, a pointer chain whose labels overlap, and the three
/// length refusals of `TSIG::read_data`, NSEC3's salt length, an OPT option longer than the RDATA.
fn directed_decode_refusals() -> Vec<String> {
    let mut v = vec![];
    let idc = std::cell::Cell::new(0x6800u16);
    let next_id = || {
        idc.set(idc.get().wrapping_add(1));
        idc.get()
    };
    let key = wire_name("key.example");
    let tsig = raw_record(&key, 250, 255, 0, &tsig_rdata(&wire_name("hmac-sha256"), 1, 300, &[7; 4], 1, 0, &[]));
    let opt = raw_record(&[0], 41, 1232, 0, &[]);
    let a = raw_record(&[0xC0, 0x0C], 1, 1, 60, &[192, 0, 2, 1]);
    let line = |v: &mut Vec<String>, kind: &str, ans: &[(u16, Vec<u8>)], add: &[Vec<u8>]| {
        v.push(format!("{kind} {}", hex(&recs_message(next_id(), ans, add))));
    };
    // controls: the same building blocks in a valid arrangement
    line(&mut v, "rtok", &[(1, vec![192, 0, 2, 1])], &[a.clone(), opt.clone(), tsig.clone()]);
    line(&mut v, "rtok", &[], &[opt.clone(), a.clone(), tsig.clone()]);
    // a record after the TSIG; two TSIGs; a second OPT
    line(&mut v, "undec", &[], &[tsig.clone(), a.clone()]);
    line(&mut v, "undec", &[], &[tsig.clone(), opt.clone()]);
    line(&mut v, "undec", &[], &[tsig.clone(), tsig.clone()]);
    line(&mut v, "undec", &[], &[opt.clone(), opt.clone()]);
    line(&mut v, "undec", &[], &[opt.clone(), a.clone(), raw_record(&[0], 41, 512, 0, &[0, 3, 0, 0])]);
    // an OPT whose owner is not the root (a label; a pointer to the question name)
    line(&mut v, "undec", &[], &[raw_record(&wire_name("x"), 41, 1232, 0, &[])]);
    line(&mut v, "undec", &[], &[raw_record(&[0xC0, 0x0C], 41, 1232, 0, &[])]);
    // ... but a pointer to a root octet is the root
    {
        let mut m = recs_message(next_id(), &[], &[]);
        // the question name `example.` ends with its root octet at offset 20
        m[11] = 1;
        m.extend(raw_record(&[0xC0, 20], 41, 1232, 0, &[]));
        v.push(format!("rtok {}", hex(&m)));
    }
    // type 0 with RDATA; type 0 / type 1 with empty RDATA in a QUERY (only an UPDATE may carry those)
    line(&mut v, "undec", &[(0, vec![1, 2, 3])], &[]);
    line(&mut v, "undec", &[(0, vec![])], &[]);
    line(&mut v, "undec", &[(1, vec![])], &[]);
    // OPT / SIG / TSIG in the answer section
    line(&mut v, "undec", &[(41, vec![])], &[]);
    line(&mut v, "undec", &[(250, tsig_rdata(&wire_name("hmac-sha256"), 1, 300, &[7; 4], 1, 0, &[]))], &[]);
    {
        let mut sig = vec![0, 0, 8, 0];
        sig.extend([0u8; 12]);
        sig.extend([0, 1]);
        sig.extend(wire_name("s"));
        sig.extend([1, 2]);
        line(&mut v, "undec", &[(24, sig.clone())], &[]);
        // SIG(0) in the additional section is an ordinary record
        line(&mut v, "rtok", &[], &[raw_record(&[0], 24, 255, 0, &sig)]);
    }
    // TSIG::read_data: MAC size beyond the RDATA, other-length not ending at the RDATA's end (short, long)
    {
        let mut rd = wire_name("hmac-sha256");
        rd.extend([0, 0, 0, 0, 0, 1, 1, 44, 0, 9, 1, 2, 3, 4, 0, 1, 0, 0, 0, 0]);
        line(&mut v, "undec", &[], &[raw_record(&key, 250, 255, 0, &rd)]);
        let good = tsig_rdata(&wire_name("hmac-sha256"), 1, 300, &[7; 4], 1, 0, &[9, 9]);
        let mut short = good.clone();
        let n = short.len();
        short[n - 3] = 1;
        line(&mut v, "undec", &[], &[raw_record(&key, 250, 255, 0, &short)]);
        let mut long = good.clone();
        long[n - 3] = 3;
        line(&mut v, "undec", &[], &[raw_record(&key, 250, 255, 0, &long)]);
        let mut trailing = good.clone();
        trailing.push(0);
        line(&mut v, "undec", &[], &[raw_record(&key, 250, 255, 0, &trailing)]);
        line(&mut v, "rtok", &[], &[raw_record(&key, 250, 255, 0, &good)]);
    }
    // NSEC3: salt length beyond the RDATA; OPT: option length beyond the RDATA
    line(&mut v, "undec", &[(50, vec![1, 0, 0, 1, 9, 1, 2])], &[]);
    line(&mut v, "undec", &[(51, vec![1, 0, 0, 1, 9, 1, 2])], &[]);
    line(&mut v, "undec", &[], &[raw_record(&[0], 41, 1232, 0, &[0, 3, 0, 9, 1, 2])]);
    // names: 255 octets through a pointer is the longest name; one label more is refused
    {
        // answer 1: a NULL record whose RDATA holds a 3 x 63 + 58 label tail ending in the root (249 octets)
        let mut tail = vec![];
        for (i, n) in [63usize, 63, 63, 55].iter().enumerate() {
            tail.push(*n as u8);
            tail.extend(std::iter::repeat(b'a' + i as u8).take(*n));
        }
        tail.push(0);
        assert_eq!(tail.len(), 249);
        // offset of that RDATA: header 12 + question 13 + owner 2 + fixed 10
        let off = 12 + 13 + 2 + 10;
        for extra in [4usize, 5, 6, 7] {
            // a CNAME whose target is one label of `extra` octets + a pointer to the tail:
            // 1 + extra + 249 octets in all
            let mut target = vec![extra as u8];
            target.extend(std::iter::repeat(b'z').take(extra));
            target.extend([0xC0 | (off >> 8) as u8, off as u8]);
            let kind = if 1 + extra + 249 <= 255 { "rtok" } else { "undec" };
            line(&mut v, kind, &[(10, tail.clone()), (5, target)], &[]);
        }
    }
    // a pointer chain must move strictly backwards: a label that runs into the place the pointer came from
    {
        // RDATA of a CNAME at offset 37: `\x01a` then a pointer to offset 37 itself (loop), to 38, and forward
        for (kind, ptr) in [("undec", 37u16), ("undec", 38), ("undec", 39), ("undec", 60), ("rtok", 12)] {
            let target = vec![1, b'a', 0xC0 | (ptr >> 8) as u8, ptr as u8];
            line(&mut v, kind, &[(5, target)], &[]);
        }
        // a pointer to a label that extends up to / over the pointer's own position
        // answer 1 (NULL) holds `\x05abcde` without a terminator right before the next record's owner
        let frag = vec![3, b'a', b'b', b'c'];
        // owner of the 2nd record = pointer to the fragment: the label is read, then the decoder stands
        // on the pointer itself
        let mut m = recs_message(next_id(), &[(10, frag)], &[]);
        m[7] = 2;
        m.extend(raw_record(&[0xC0, 37], 1, 1, 60, &[192, 0, 2, 9]));
        v.push(format!("undec {}", hex(&m)));
    }
    v
}

/// Directed family (coverage review): messages assembled through the OTHER public entry points — the
/// constructors of every RDATA type (`CAA::new_issue / new_issuewild / new_iodef`, `CERT::new`,
/// `CSYNC::new`, `HINFO::new`, `TXT::new`, `TLSA::new`, `SMIMEA::new`, `NSEC::new_cover_self`, `NSEC3::new`,
/// `DNSKEY::new`, `CDNSKEY::new`, `RRSIG::from_sig`, `TSIG::new` + `set_mac` + `make_tsig_record`,
/// `ClientSubnet::new` and its setters, `OPT::insert / remove`, `Edns::enable_dnssec /
/// set_default_algorithms`, the `From<…> for RData` conversions, `Record::into_record_of_rdata`) and
/// the other ways to fill a `Message` (`Message::query / response / error_msg`, `add_queries`,
/// `add_answers`, `insert_answers`, …, `into_response`, `truncate`).  Every message is an `asm` line (the
/// assembled value must come back from decode-after-encode) and an `rt` line (model-compared).
fn directed_constructors() -> Vec<String> {
    use crate::props::msgemit::{asm_dump, fnv1a};
    use hickory_proto::dnssec::rdata::key::{KeyTrust, KeyUsage, Protocol as KeyProtocol, UpdateScope};
    use hickory_proto::dnssec::rdata::{SigInput, CDNSKEY, CDS, DNSKEY, DS, KEY, NSEC, NSEC3, NSEC3PARAM, RRSIG};
    use hickory_proto::dnssec::{Algorithm, DigestType, Nsec3HashAlgorithm, PublicKeyBuf};
    use hickory_proto::op::{Edns, Message, MessageType, OpCode, Query, ResponseCode};
    use hickory_proto::rr::rdata::caa::KeyValue;
    use hickory_proto::rr::rdata::cert::{Algorithm as CertAlgorithm, CertType};
    use hickory_proto::rr::rdata::opt::{ClientSubnet, EdnsCode, EdnsOption};
    use hickory_proto::rr::rdata::sshfp;
    use hickory_proto::rr::rdata::svcb::{Alpn, IpHint, Mandatory, SvcParamKey, SvcParamValue};
    use hickory_proto::rr::rdata::tlsa::{CertUsage, Matching, Selector};
    use hickory_proto::rr::rdata::tsig::{make_tsig_record, TsigAlgorithm, TsigError, TSIG};
    use hickory_proto::rr::rdata::{A, AAAA, CAA, CERT, CSYNC, HINFO, HTTPS, MX, NAPTR, NS, OPENPGPKEY, SMIMEA, SOA, SRV, SSHFP, SVCB, TLSA, TXT};
    use hickory_proto::rr::{DNSClass, Name, RData, Record, RecordType, SerialNumber};
    let nm = |s: &str| Name::from_ascii(s).unwrap();
    let rr = |owner: &str, ttl: u32, d: RData| Record::from_rdata(nm(owner), ttl, d);
    let mut out: Vec<Message> = vec![];

    // ---- every RDATA constructor, one record each, spread over the three sections
    let records: Vec<Record> = vec![
        rr("a.example.", 1, RData::from(std::net::IpAddr::from([192, 0, 2, 1]))),
        rr("a.example.", 2, RData::from(std::net::IpAddr::from([0x2001, 0xdb8, 0, 0, 0, 0, 0, 1]))),
        rr("a.example.", 3, RData::from(std::net::Ipv4Addr::new(203, 0, 113, 9))),
        rr("a.example.", 4, RData::from(std::net::Ipv6Addr::LOCALHOST)),
        rr("a.example.", 5, RData::A(A::new(10, 0, 0, 1))),
        rr("a.example.", 6, RData::AAAA(AAAA::new(0xfe80, 0, 0, 0, 0, 0, 0, 2))),
        rr("caa.example.", 7, RData::CAA(CAA::new_issue(true, Some(nm("ca.example.net.")), vec![KeyValue::new("account", "230123"), KeyValue::new("k", "v")]))),
        rr("caa.example.", 8, RData::CAA(CAA::new_issue(false, None, vec![]))),
        rr("caa.example.", 9, RData::CAA(CAA::new_issue(false, Some(nm("ca.example.net.")), vec![]))),
        rr("caa.example.", 10, RData::CAA(CAA::new_issuewild(true, None, vec![KeyValue::new("policy", "ev")]))),
        rr("caa.example.", 11, RData::CAA(CAA::new_issuewild(false, Some(nm("wild.example.")), vec![]))),
        rr("caa.example.", 12, RData::CAA(CAA::new_iodef(true, "https://iodef.example.com/report?x=1".parse().unwrap()))),
        rr("caa.example.", 13, RData::CAA(CAA::new_iodef(false, "mailto:security@example.com".parse().unwrap()))),
        rr("cert.example.", 14, RData::CERT(CERT::new(CertType::PKIX, 12345, CertAlgorithm::RSASHA256, vec![1, 2, 3, 4, 5]))),
        rr("cert.example.", 15, RData::CERT(CERT::new(CertType::Experimental(65281), 0, CertAlgorithm::Unassigned(200), vec![0]))),
        rr("csync.example.", 16, RData::CSYNC(CSYNC::new(2026010101, true, false, [RecordType::A, RecordType::NS, RecordType::AAAA]))),
        rr("csync.example.", 17, RData::CSYNC(CSYNC::new(0, false, true, [RecordType::CAA, RecordType::Unknown(65280)]))),
        rr("hinfo.example.", 18, RData::HINFO(HINFO::new("Intel-386".to_string(), "Linux".to_string()))),
        rr("hinfo.example.", 19, RData::HINFO(HINFO::new(String::new(), "x".repeat(255)))),
        rr("txt.example.", 20, RData::TXT(TXT::new(vec!["v=spf1 -all".to_string(), String::new(), "y".repeat(255)]))),
        rr("_443._tcp.example.", 21, RData::TLSA(TLSA::new(CertUsage::DaneEe, Selector::Spki, Matching::Sha256, vec![0xAB; 32]))),
        rr("_443._tcp.example.", 22, RData::TLSA(TLSA::new(CertUsage::Unassigned(77), Selector::Private, Matching::Unassigned(9), vec![1]))),
        rr("user._smimecert.example.", 23, RData::SMIMEA(SMIMEA::new(CertUsage::PkixTa, Selector::Full, Matching::Raw, vec![0x30, 0x82, 1, 2]))),
        rr("host.example.", 24, RData::SSHFP(SSHFP::new(sshfp::Algorithm::Ed25519, sshfp::FingerprintType::SHA256, vec![0xCD; 32]))),
        rr("host.example.", 25, RData::SSHFP(SSHFP::new(sshfp::Algorithm::Ed448, sshfp::FingerprintType::Unassigned(7), vec![]))),
        rr("pgp.example.", 26, RData::OPENPGPKEY(OPENPGPKEY::new(vec![0x99, 1, 13, 4]))),
        Record::from_rdata(Name::from(std::net::Ipv4Addr::new(192, 0, 2, 255)), 27, RData::PTR(hickory_proto::rr::rdata::PTR(nm("host.example.")))),
        Record::from_rdata(Name::from(std::net::IpAddr::from([0x2001, 0xdb8, 0, 0, 0, 0xabcd, 0, 0x12])), 27, RData::PTR(hickory_proto::rr::rdata::PTR(Name::from(std::net::Ipv6Addr::LOCALHOST)))),
        rr("mx.example.", 27, RData::MX(MX::new(10, nm("mail.example.")))),
        rr("_sip._udp.example.", 28, RData::SRV(SRV::new(1, 2, 5060, nm("sip.example.")))),
        rr("example.", 29, RData::SOA(SOA::new(nm("ns.example."), nm("admin.example."), 1, i32::MAX, i32::MIN, -1, u32::MAX))),
        rr("naptr.example.", 30, RData::NAPTR(NAPTR::new(100, 10, b"U".to_vec().into_boxed_slice(), b"E2U+sip".to_vec().into_boxed_slice(), b"!^.*$!sip:info@example.com!".to_vec().into_boxed_slice(), Name::root()))),
        rr("svc.example.", 31, RData::SVCB(SVCB::new(1, nm("svc-target.example."), vec![
            (SvcParamKey::Mandatory, SvcParamValue::Mandatory(Mandatory(vec![SvcParamKey::Alpn, SvcParamKey::Port]))),
            (SvcParamKey::Alpn, SvcParamValue::Alpn(Alpn(vec!["h2".to_string(), "h3".to_string()]))),
            (SvcParamKey::Port, SvcParamValue::Port(8443)),
            (SvcParamKey::Ipv4Hint, SvcParamValue::Ipv4Hint(IpHint(vec![A::new(192, 0, 2, 1), A::new(192, 0, 2, 2)]))),
        ]))),
        rr("svc.example.", 32, RData::HTTPS(HTTPS(SVCB::new(0, nm("alias.example."), vec![])))),
        rr("example.", 33, RData::from(DNSKEY::new(true, true, false, PublicKeyBuf::new(vec![7; 32], Algorithm::ED25519)))),
        rr("example.", 34, RData::from(DNSKEY::new(false, false, true, PublicKeyBuf::new(vec![3, 1, 0, 1, 9], Algorithm::RSASHA256)))),
        rr("example.", 35, RData::from(CDNSKEY::new(true, false, false, Some(Algorithm::ECDSAP256SHA256), vec![5; 64]))),
        rr("example.", 36, RData::from(CDNSKEY::new(false, false, false, None, vec![0]))),
        rr("example.", 37, RData::from(hickory_proto::dnssec::rdata::DNSSECRData::DS(DS::new(60485, Algorithm::RSASHA1, DigestType::SHA1, vec![0x2B; 20])))),
        rr("example.", 38, RData::from(CDS::new(0, None, DigestType::Unknown(0), vec![0]))),
        rr("example.", 39, RData::from(CDS::new(1, Some(Algorithm::ED25519), DigestType::SHA384, vec![1; 48]))),
        rr("example.", 40, RData::from(KEY::new(KeyTrust::DoNotTrust, KeyUsage::Entity, UpdateScope { zone: true, strong: false, unique: true, general: false }, KeyProtocol::TLS, Algorithm::ED25519, vec![1, 2, 3]))),
        rr("example.", 41, RData::from(KEY::new(KeyTrust::NotPrivate, KeyUsage::Zone, UpdateScope::default(), KeyProtocol::Other(200), Algorithm::Unknown(77), vec![]))),
        rr("a.example.", 42, RData::from(hickory_proto::dnssec::rdata::DNSSECRData::NSEC(NSEC::new_cover_self(nm("b.example."), [RecordType::A, RecordType::MX])))),
        rr("a.example.", 43, RData::from(hickory_proto::dnssec::rdata::DNSSECRData::NSEC(NSEC::new(nm("c.example."), [RecordType::Unknown(65535), RecordType::A])))),
        rr("0p9mhaveqvm6t7vbl5lop2u3t2rp3tom.example.", 44, RData::from(hickory_proto::dnssec::rdata::DNSSECRData::NSEC3(NSEC3::new(Nsec3HashAlgorithm::SHA1, true, 12, vec![0xAA, 0xBB, 0xCC, 0xDD], vec![0x11; 20], [RecordType::A, RecordType::RRSIG])))),
        rr("example.", 45, RData::from(hickory_proto::dnssec::rdata::DNSSECRData::NSEC3PARAM(NSEC3PARAM::new(Nsec3HashAlgorithm::SHA1, false, 0, vec![])))),
        rr("a.example.", 46, RData::from(hickory_proto::dnssec::rdata::DNSSECRData::RRSIG(RRSIG::from_sig(
            SigInput {
                type_covered: RecordType::A,
                algorithm: Algorithm::ED25519,
                num_labels: 2,
                original_ttl: 3600,
                sig_expiration: SerialNumber::new(u32::MAX),
                sig_inception: SerialNumber::new(0),
                key_tag: 65535,
                signer_name: nm("Example."),
            },
            vec![0xEE; 64],
        )))),
    ];
    for (i, chunk) in records.chunks(6).enumerate() {
        // three ways to fill the sections
        let mut m = match i % 3 {
            0 => Message::query(),
            1 => Message::response(0x7100 + i as u16, OpCode::Query),
            _ => Message::error_msg(0x7100 + i as u16, OpCode::Query, ResponseCode::NXDomain),
        };
        m.metadata.id = 0x7100 + i as u16;
        m.add_queries(vec![Query::new(nm("example."), RecordType::ANY)]);
        match i % 3 {
            0 => {
                m.add_answers(chunk[..2].to_vec());
                m.add_authorities(chunk[2..4].to_vec());
                m.add_additionals(chunk[4..].to_vec());
            }
            1 => {
                m.insert_answers(chunk[..2].to_vec());
                m.insert_authorities(chunk[2..4].to_vec());
                m.insert_additionals(chunk[4..].to_vec());
            }
            _ => {
                for x in &chunk[..2] {
                    m.add_answer(x.clone().into_record_of_rdata());
                }
                m.add_authorities(chunk[2..4].iter().cloned());
                m.add_additionals(chunk[4..].iter().cloned());
            }
        }
        out.push(m);
    }
    // all of them in one message (shared owner names, all three sections)
    {
        let mut m = Message::response(0x7180, OpCode::Query);
        m.add_queries([Query::new(nm("example."), RecordType::ANY), Query::new(nm("a.example."), RecordType::A)]);
        m.insert_answers(records[..20].to_vec());
        m.insert_authorities(records[20..34].to_vec());
        m.insert_additionals(records[34..].to_vec());
        out.push(m);
    }
    // ---- EDNS through the other setters; options through insert / remove; ClientSubnet constructors
    {
        let mut e = Edns::new();
        e.enable_dnssec();
        e.set_default_algorithms();
        let mut cs = ClientSubnet::new(std::net::IpAddr::from([198, 51, 100, 0]), 24, 0);
        cs.set_scope_prefix(16);
        e.options_mut().insert(EdnsOption::Subnet(cs));
        e.options_mut().insert(EdnsOption::Unknown(65001, vec![1, 2, 3]));
        e.options_mut().insert(EdnsOption::Unknown(9, vec![]));
        e.options_mut().remove(EdnsCode::Expire);
        assert!(e.option(EdnsCode::Subnet).is_some() && e.option(EdnsCode::Expire).is_none());
        let mut m = Message::query();
        m.metadata.id = 0x7190;
        m.add_query(Query::new(nm("edns.example."), RecordType::A));
        m.set_edns(e);
        out.push(m.clone());
        // the response made from the query, and its truncated form
        let mut resp = m.clone().into_response();
        resp.add_answer(rr("edns.example.", 60, RData::A(A::new(192, 0, 2, 7))));
        out.push(resp.clone());
        out.push(resp.truncate());
        let mut cs6 = ClientSubnet::new(std::net::IpAddr::from([0x2001, 0xdb8, 0xffff, 0, 0, 0, 0, 1]), 48, 0);
        cs6.set_source_prefix(56);
        cs6.set_addr(std::net::IpAddr::from([0x2001, 0xdb8, 0xff00, 0, 0, 0, 0, 0]));
        let net: ipnet::IpNet = "203.0.113.0/24".parse().unwrap();
        for sub in [cs6, ClientSubnet::from(net), ClientSubnet::new(std::net::IpAddr::from([0, 0, 0, 0]), 0, 0)] {
            let mut e = Edns::new();
            e.set_max_payload(4096);
            e.options_mut().insert(EdnsOption::Subnet(sub));
            let mut m = Message::response(0x7191 + out.len() as u16, OpCode::Query);
            m.set_edns(e);
            out.push(m);
        }
    }
    // ---- error_msg with every kind of response code (extended ones need an Edns to carry the high bits)
    for (i, rc) in [ResponseCode::FormErr, ResponseCode::ServFail, ResponseCode::Refused, ResponseCode::NotAuth, ResponseCode::BADKEY, ResponseCode::BADCOOKIE, ResponseCode::Unknown(4095)]
        .into_iter()
        .enumerate()
    {
        let mut m = Message::error_msg(0x71C0 + i as u16, if i % 2 == 0 { OpCode::Query } else { OpCode::Update }, rc);
        m.add_query(Query::new(nm("err.example."), RecordType::SOA));
        if rc.high() > 0 {
            // (the Edns value's own rcode_high is overwritten by emit; mirrored here so that the
            // assembled value equals what comes back)
            let mut e = Edns::new();
            e.set_rcode_high(rc.high());
            m.set_edns(e);
        }
        out.push(m);
    }
    // ---- TSIG through `TSIG::new`, `set_mac`, `make_tsig_record`
    for (i, (alg, err, other)) in [
        (TsigAlgorithm::HmacSha256, None, vec![]),
        (TsigAlgorithm::HmacSha512_256, Some(TsigError::BadTime), vec![0, 0, 0x65, 0x43, 0x21, 0x00]),
        (TsigAlgorithm::Unknown(nm("custom-alg.example")), Some(TsigError::BadTrunc), vec![]),
        (TsigAlgorithm::Gss, Some(TsigError::Unknown(4000)), vec![9]),
    ]
    .into_iter()
    .enumerate()
    {
        let t = TSIG::new(alg, 0xFFFF_FFFF_FFFF, 300, vec![], 0x71D0 + i as u16, err, other).set_mac(vec![0x5A; 20 + i]);
        let mut m = Message::response(0x71D0 + i as u16, OpCode::Update);
        m.add_query(Query::new(nm("example."), RecordType::SOA));
        m.add_additional(rr("x.example.", 0, RData::A(A::new(192, 0, 2, 3))));
        m.set_edns(Edns::new());
        m.set_signature(Box::new(make_tsig_record(nm("Key.Example."), t)));
        out.push(m);
    }
    // seeded change C02-r4-2 (missed by both tiers as first evaluated: no generator left the opcodes
    // Query / Update): every 4-bit opcode (0..=15, twelve of them `OpCode::Unknown`) x both message types
    // x header flag patterns x the 4-bit response codes, with and without a question
    for op in 0u8..16 {
        for (j, mt) in [MessageType::Query, MessageType::Response].into_iter().enumerate() {
            for flags in [0u8, 0b010101, 0b101010, 0b011111, 0b100000, 0b111111] {
                let mut m = Message::new(0x7200 + ((op as u16) << 6) + flags as u16, mt, OpCode::from_u8(op));
                m.metadata.authoritative = flags & 1 != 0;
                m.metadata.truncation = flags & 2 != 0;
                m.metadata.recursion_desired = flags & 4 != 0;
                m.metadata.recursion_available = flags & 8 != 0;
                m.metadata.authentic_data = flags & 16 != 0;
                m.metadata.checking_disabled = flags & 32 != 0;
                m.metadata.response_code = ResponseCode::from(0, (op * 3 + flags) % 16);
                if (op as usize + j) % 2 == 0 {
                    m.add_query(Query::new(nm("example."), RecordType::A));
                }
                out.push(m);
            }
        }
    }
    let _ = (NS(Name::root()), DNSClass::IN, MessageType::Query);
    let mut v = vec![];
    for m in out {
        match m.to_vec() {
            Ok(bytes) => {
                v.push(format!("asm {} {}", hex(&bytes), fnv1a(asm_dump(&m).as_bytes())));
                v.push(format!("rt {}", hex(&bytes)));
            }
            Err(e) => v.push(format!("asm-emit-failed {e}")),
        }
    }
    v
}

/// Directed family: the Edns VALUE handed to the message carries an rcode_high DIFFERENT from the high
/// bits of the message's response code (set through the public API, or taken from a decoded message);
/// and flags / version / DO / max_payload at their extremes.  `emit_message_parts` must overwrite the
/// stale value with the response code's high bits, every other field must come back unchanged.
fn directed_edns_rcode() -> Vec<String> {
    let mut v = vec![];
    for via in ["s", "d"] {
        for stale in [0u8, 1, 2, 0x0F, 0x10, 0x80, 0xFF] {
            for high in [0u8, 1, 0x0F, 0xF0, 0xFF] {
                for low in [0u8, 3, 15] {
                    v.push(format!("ednsrc {via} {low} {high} {stale} 0 1 0 1232"));
                }
            }
        }
    }
    // no Edns value at all: the high bits of an extended response code are dropped (with a warning)
    for high in [0u8, 1, 0x0F, 0xF0, 0xFF] {
        for low in [0u8, 3, 15] {
            v.push(format!("ednsrc n {low} {high} 0 0 0 0 512"));
        }
    }
    for version in [0u8, 1, 255] {
        for dok in [0u8, 1] {
            for z in [0u16, 1, 0x4000, 0x7FFF] {
                for payload in [0u16, 511, 512, 1232, 65535] {
                    for (stale, high) in [(0u8, 0u8), (0xFF, 0), (0, 0xFF), (0xAA, 0x55)] {
                        v.push(format!("ednsrc s 5 {high} {stale} {version} {dok} {z} {payload}"));
                    }
                }
            }
        }
    }
    v
}

/// `tsnew` lines: type sets over the boundaries of the window / bitmap encoding
fn directed_fresh_typesets(seed: u64) -> Vec<String> {
    let mut r = Rng::new(seed ^ 0x7575_E701);
    let mut v = vec!["tsnew -".to_string()];
    let show = |ts: &[u16]| ts.iter().map(|t| t.to_string()).collect::<Vec<_>>().join(",");
    for ts in [
        vec![1u16], vec![0], vec![7], vec![8], vec![255], vec![256], vec![257], vec![65535], vec![65280],
        vec![1, 2, 6, 15, 16, 28, 46, 47, 48], vec![47, 46, 1, 1, 47], vec![255, 256, 511, 512, 65535, 0],
        vec![1, 257, 513, 769, 1025], vec![248, 249, 250, 251, 252, 253, 254, 255],
    ] {
        v.push(format!("tsnew {}", show(&ts)));
    }
    for _ in 0..40 {
        let n = r.range(1, 12) as usize;
        let ts: Vec<u16> = (0..n)
            .map(|_| match r.below(4) {
                0 => r.below(64) as u16,
                1 => r.below(300) as u16,
                2 => (r.below(4) * 256 + r.below(256)) as u16,
                _ => r.next() as u16,
            })
            .collect();
        v.push(format!("tsnew {}", show(&ts)));
    }
    v
}

/// A query whose only record is an OPT record with the given option octets (RDATA), as wire bytes.
fn opt_message(id: u16, rdata: &[u8]) -> Vec<u8> {
    let mut b = vec![];
    b.extend(id.to_be_bytes());
    b.extend([0x01, 0x00]); // RD
    b.extend([0, 1, 0, 0, 0, 0, 0, 1]); // QD 1, AR 1
    b.extend([7]);
    b.extend(b"example");
    b.extend([0, 0, 1, 0, 1]); // example. A IN
    b.extend([0]); // root
    b.extend(41u16.to_be_bytes());
    b.extend(1232u16.to_be_bytes());
    b.extend([0, 0, 0x80, 0]); // DO
    b.extend((rdata.len() as u16).to_be_bytes());
    b.extend(rdata);
    b
}

fn opt_option(code: u16, data: &[u8]) -> Vec<u8> {
    let mut v = vec![];
    v.extend(code.to_be_bytes());
    v.extend((data.len() as u16).to_be_bytes());
    v.extend(data);
    v
}

/// Directed family (stage 3): decode → encode → decode over the WHOLE parameter range of the EDNS
/// options — Client Subnet with family 1 / 2, EVERY source prefix 0..=32 / 0..=128 (not only the
/// octet-aligned ones), scope prefixes likewise, addresses with random bits including non-zero bits
/// beyond the prefix in the last transmitted octet (which the decoder accepts and keeps) — plus the
/// length boundaries of the other options (NSID, DAU, unknown codes) and several options in one OPT.
fn directed_edns_options(seed: u64) -> Vec<String> {
    let mut r = Rng::new(seed ^ 0xED05_0B75);
    let mut v = vec![];
    let mut id = 0x4000u16;
    let mut push = |v: &mut Vec<String>, rdata: &[u8]| {
        id = id.wrapping_add(1);
        v.push(format!("rt {}", hex(&opt_message(id, rdata))));
    };
    for (family, max) in [(1u16, 32u16), (2, 128)] {
        for sp in 0..=max {
            let alen = ((sp + 7) / 8) as usize;
            for k in 0..2 {
                let scope = match k {
                    0 => (sp * 7 + 3) % (max + 1),
                    _ => *r.pick(&[0u16, sp, max]),
                };
                let mut d = vec![];
                d.extend(family.to_be_bytes());
                d.push(sp as u8);
                d.push(scope as u8);
                let mut addr = r.bytes(alen);
                if k == 1 && alen > 0 {
                    // all bits of the last octet set: non-zero both inside and beyond the prefix
                    addr[alen - 1] = 0xFF;
                }
                d.extend(addr);
                push(&mut v, &opt_option(8, &d));
            }
        }
        // every scope prefix for two fixed source prefixes
        for scope in 0..=max {
            let sp = if family == 1 { 22u16 } else { 53 };
            let alen = ((sp + 7) / 8) as usize;
            let mut d = vec![];
            d.extend(family.to_be_bytes());
            d.push(sp as u8);
            d.push(scope as u8);
            d.extend(r.bytes(alen));
            push(&mut v, &opt_option(8, &d));
        }
    }
    // Client Subnet: wrong lengths / families (refused, or trailing octets ignored)
    for d in [
        vec![0u8, 1, 24, 0, 10, 1, 2, 3],          // one octet more than the prefix needs
        vec![0, 1, 24, 0, 10, 1],                  // one octet less
        vec![0, 1, 33, 0, 10, 1, 2, 3, 4],         // prefix past the family width
        vec![0, 2, 129, 0],                        // likewise, IPv6
        vec![0, 3, 8, 0, 1],                       // unknown family
        vec![0, 1, 0, 0],                          // /0
        vec![0, 1],                                // truncated
    ] {
        push(&mut v, &opt_option(8, &d));
    }
    // NSID / unknown codes / DAU: length boundaries
    for n in [0usize, 1, 2, 15, 255, 256, 257, 1000, 4000] {
        let d = r.bytes(n);
        push(&mut v, &opt_option(3, &d));
        push(&mut v, &opt_option(10, &d));
        push(&mut v, &opt_option(65001, &d));
    }
    for algs in [
        vec![],
        vec![8u8],
        vec![15, 14, 13, 10, 8, 7, 5],
        vec![5, 5, 8, 8],
        vec![0, 1, 2, 3, 200, 255],
        vec![13, 99, 8],
    ] {
        push(&mut v, &opt_option(5, &algs));
        push(&mut v, &opt_option(6, &algs)); // DHU / N3U: unknown codes in this hickory
        push(&mut v, &opt_option(7, &algs));
    }
    // several options in one OPT (order kept), and the leniencies at the end of the option list
    let ecs = opt_option(8, &[0, 1, 21, 0, 10, 1, 0xFC]);
    let nsid = opt_option(3, b"ns1");
    let dau = opt_option(5, &[8, 13]);
    let unk = opt_option(4242, &[1, 2, 3]);
    for combo in [
        vec![&ecs, &nsid],
        vec![&nsid, &ecs, &dau],
        vec![&unk, &unk, &ecs],
        vec![&dau, &unk, &nsid, &ecs],
    ] {
        let mut d = vec![];
        for o in combo {
            d.extend(o.iter());
        }
        push(&mut v, &d);
        let mut t = d.clone();
        t.extend([0, 3]); // a last option cut after its code
        push(&mut v, &t);
        let mut t = d.clone();
        t.extend([0, 3, 0, 9, 1, 2]); // a last option shorter than declared
        push(&mut v, &t);
    }
    v
}

/// deterministic message-level cases
fn built_in_messages() -> Vec<String> {
    use crate::props::msgemit::{asm_dump, fnv1a};
    use hickory_proto::op::{Edns, Message, MessageType, OpCode, Query, ResponseCode};
    use hickory_proto::rr::{Name, RecordType};
    let mut v = vec![];
    // controls for KNOWN FINDING C02-F1 (corpus/C02/finding-badvers-alias.case: BADVERS comes back as
    // BADSIG): the other extended codes around 16 round-trip
    for rc in [ResponseCode::BADSIG, ResponseCode::BADKEY, ResponseCode::BADTIME, ResponseCode::BADCOOKIE] {
        let mut m = Message::new(7, MessageType::Response, OpCode::Query);
        m.add_query(Query::new(Name::from_ascii("example.").unwrap(), RecordType::A));
        m.metadata.response_code = rc;
        let mut e = Edns::new();
        e.set_rcode_high(rc.high());
        m.set_edns(e);
        let bytes = m.to_vec().unwrap();
        v.push(format!("asm {} {}", hex(&bytes), fnv1a(asm_dump(&m).as_bytes())));
    }
    v
}
