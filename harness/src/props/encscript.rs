//! Script interpreter shared by C02 and C03 (stage 1): one case line is a whole script of
//! `BinEncoder` operations run on one real encoder; the Lean driver (`Drv/EncScript.lean`) runs the
//! same script on the model.  Line: `enc <init> <op> <op> …` (`encx` = same, but a panic is an
//! expected outcome of deliberate API misuse and not an oracle failure).
//!
//!   init : `e` | `new:HEX` | `wo:HEX:K`
//!   op   : `max:N` `canon:0|1` `ne:c|u|l` `fill:N:BB` `sl:HEX` `u8:N` `u16:N` `u32:N` `cd:HEX`
//!          `cdn:N:BB` `n:c|u|l|d:NAME` `rd:s|c|o:NAME` `pl:K` `pl:u` `rp:HEX` `rpu:N` `rpl` `lsp`
//!          `trim` `slp:S:E` `glp:S:E` `so:S:E` `iter(` ops… `/` ops… `)`
//!   out  : `<status>,… len=<n> h=<fnv1a64> buf=<hex (whole if ≤ 1024 octets, else the last 512)>`
use std::cell::RefCell;

use hickory_proto::rr::Name;
use hickory_proto::serialize::binary::{
    BinDecodable, BinDecoder, BinEncodable, BinEncoder, EncodedSize, NameEncoding, Place, RDataEncoding,
};
use hickory_proto::ProtoError;

use crate::common::*;

#[derive(Clone)]
pub enum Op {
    SetMax(u16),
    Canon(bool),
    Ne(NameEncoding),
    Slice(Vec<u8>),
    U8(u8),
    U16(u16),
    U32(u32),
    Cd(Vec<u8>),
    Name(Option<NameEncoding>, Name),
    Rd(RDataEncoding, Name),
    Pl(usize, bool),
    Rp(Vec<u8>),
    Rpu(u16),
    Rpl,
    Lsp,
    Trim,
    Slp(usize, usize),
    Glp(usize, usize),
    So(usize, usize),
    Iter(Vec<Vec<Op>>),
}

pub enum Init {
    Empty,
    New(Vec<u8>),
    WithOffset(Vec<u8>, u32),
}

fn parse_mode(s: &str) -> Option<Option<NameEncoding>> {
    Some(match s {
        "c" => Some(NameEncoding::Compressed),
        "u" => Some(NameEncoding::Uncompressed),
        "l" => Some(NameEncoding::UncompressedLowercase),
        "d" => None,
        _ => return None,
    })
}

fn parse_simple(tok: &str) -> Option<Op> {
    let p: Vec<&str> = tok.split(':').collect();
    Some(match p.as_slice() {
        ["max", n] => Op::SetMax(n.parse().ok()?),
        ["canon", b] => Op::Canon(*b == "1"),
        ["ne", m] => Op::Ne(parse_mode(m)??),
        ["fill", n, b] => {
            let b = unhex(b)?;
            if b.len() != 1 {
                return None;
            }
            Op::Slice(vec![b[0]; n.parse().ok()?])
        }
        ["sl", h] => Op::Slice(unhex(h)?),
        ["u8", n] => Op::U8(n.parse().ok()?),
        ["u16", n] => Op::U16(n.parse().ok()?),
        ["u32", n] => Op::U32(n.parse().ok()?),
        ["cd", h] => Op::Cd(unhex(h)?),
        ["cdn", n, b] => {
            let b = unhex(b)?;
            if b.len() != 1 {
                return None;
            }
            Op::Cd(vec![b[0]; n.parse().ok()?])
        }
        ["n", m, f, ls] => Op::Name(parse_mode(m)?, parse_name(&format!("{f}:{ls}"))?),
        ["rd", k, f, ls] => {
            let k = match *k {
                "s" => RDataEncoding::StandardRecord,
                "c" => RDataEncoding::Canonical,
                "o" => RDataEncoding::Other,
                _ => return None,
            };
            Op::Rd(k, parse_name(&format!("{f}:{ls}"))?)
        }
        ["pl", "u"] => Op::Pl(2, true),
        ["pl", k] => {
            let k: usize = k.parse().ok()?;
            if ![1, 2, 3, 4, 12].contains(&k) {
                return None;
            }
            Op::Pl(k, false)
        }
        ["rp", h] => Op::Rp(unhex(h)?),
        ["rpu", n] => Op::Rpu(n.parse().ok()?),
        ["rpl"] => Op::Rpl,
        ["lsp"] => Op::Lsp,
        ["trim"] => Op::Trim,
        ["slp", s, e] => Op::Slp(s.parse().ok()?, e.parse().ok()?),
        ["glp", s, e] => Op::Glp(s.parse().ok()?, e.parse().ok()?),
        ["so", s, e] => Op::So(s.parse().ok()?, e.parse().ok()?),
        _ => return None,
    })
}

/// parses ops up to a closing `)` / `/` (not consumed) or the end
fn parse_ops<'a>(mut t: &'a [&'a str]) -> Option<(Vec<Op>, &'a [&'a str])> {
    let mut ops = vec![];
    loop {
        match t.first() {
            None | Some(&")") | Some(&"/") => return Some((ops, t)),
            Some(&"iter(") => {
                let mut items = vec![];
                t = &t[1..];
                loop {
                    let (o, rest) = parse_ops(t)?;
                    match rest.first() {
                        Some(&")") => {
                            if !(o.is_empty() && items.is_empty()) {
                                items.push(o);
                            }
                            t = &rest[1..];
                            break;
                        }
                        Some(&"/") => {
                            items.push(o);
                            t = &rest[1..];
                        }
                        _ => return None,
                    }
                }
                ops.push(Op::Iter(items));
            }
            Some(tok) => {
                ops.push(parse_simple(tok)?);
                t = &t[1..];
            }
        }
    }
}

pub fn parse_line(t: &[&str]) -> Option<(bool, Init, Vec<Op>)> {
    let misuse = match t.first()? {
        &"enc" => false,
        &"encx" => true,
        _ => return None,
    };
    let p: Vec<&str> = t.get(1)?.split(':').collect();
    let init = match p.as_slice() {
        ["e"] => Init::Empty,
        ["new", h] => Init::New(unhex(h)?),
        ["wo", h, k] => Init::WithOffset(unhex(h)?, k.parse().ok()?),
        _ => return None,
    };
    let (ops, rest) = parse_ops(&t[2..])?;
    if !rest.is_empty() {
        return None;
    }
    Some((misuse, init, ops))
}

// ------------------------------------------------------------------ execution on the real encoder

pub struct Blob<const N: usize>(Vec<u8>);
impl<const N: usize> BinEncodable for Blob<N> {
    fn emit(&self, e: &mut BinEncoder<'_>) -> Result<(), ProtoError> {
        e.emit_slice(&self.0)
    }
}
impl<const N: usize> EncodedSize for Blob<N> {
    const LEN: usize = N;
}

enum AnyPlace {
    B1(Place<Blob<1>>),
    B2(Place<Blob<2>>),
    B3(Place<Blob<3>>),
    B4(Place<Blob<4>>),
    B12(Place<Blob<12>>),
    U(Place<u16>),
}

/// a name the script wrote successfully: where, and what it must decode to
#[derive(Clone)]
pub struct NameRec {
    pub start: usize,
    pub end: usize,
    pub want: Vec<Vec<u8>>,
    pub uncompressed_len: usize,
}

#[derive(Default)]
pub struct Log {
    pub names: Vec<NameRec>,
    pub fails: Vec<String>,
    pub max: usize,
    pub n_names: u64,
    pub n_emax: u64,
    pub n_err: u64,
    pub n_naw: u64,
    pub n_ops: u64,
    /// a name failed with MaxBufferSizeExceeded outside `emit_iter` (not rolled back) …
    pub name_emax_unrolled: bool,
    /// … and the limit was raised afterwards: the encoder is being used past a failed, not
    /// rolled-back name; the round-trip property does not speak about that
    pub poisoned: bool,
    /// a nested `emit_iter` (inside an item) returned NotAllRecordsWritten: the outer `emit_iter`
    /// propagates that error unchanged ("other errors propagate"), its count is the inner one
    pub nested_naw: bool,
}

enum OpOut {
    Ok(String),
    Err(ProtoError),
    Bad,
}

fn err_str(e: &ProtoError) -> String {
    match e {
        ProtoError::MaxBufferSizeExceeded(_) => "emax".into(),
        ProtoError::NotAllRecordsWritten { count, .. } => format!("naw:{count}"),
        _ => "err".into(),
    }
}

fn unit(r: Result<(), ProtoError>) -> OpOut {
    match r {
        Ok(()) => OpOut::Ok("ok".into()),
        Err(e) => OpOut::Err(e),
    }
}

fn lower(l: &[u8]) -> Vec<u8> {
    l.iter().map(|b| b.to_ascii_lowercase()).collect()
}

struct Item<'a> {
    ops: &'a [Op],
    log: &'a RefCell<Log>,
}

impl BinEncodable for Item<'_> {
    fn emit(&self, enc: &mut BinEncoder<'_>) -> Result<(), ProtoError> {
        let mut stack = vec![];
        for op in self.ops {
            match run_op(enc, op, &mut stack, self.log, false) {
                OpOut::Ok(_) => {}
                OpOut::Err(e) => return Err(e),
                OpOut::Bad => panic!("bad-item"),
            }
        }
        Ok(())
    }
}

fn emit_name(enc: &mut BinEncoder<'_>, n: &Name, lowercase: bool, log: &RefCell<Log>, top: bool, r: impl FnOnce(&mut BinEncoder<'_>) -> Result<(), ProtoError>) -> OpOut {
    let start = enc.len();
    let res = r(enc);
    let mut l = log.borrow_mut();
    l.n_names += 1;
    match &res {
        Ok(()) => {
            let want: Vec<Vec<u8>> = n.iter().map(|x| if lowercase { lower(x) } else { x.to_vec() }).collect();
            let unc = want.iter().map(|x| x.len() + 1).sum::<usize>() + 1;
            let end = enc.len();
            l.names.push(NameRec { start, end, want, uncompressed_len: unc });
        }
        Err(ProtoError::MaxBufferSizeExceeded(_)) if top => l.name_emax_unrolled = true,
        _ => {}
    }
    unit(res)
}

fn run_op(enc: &mut BinEncoder<'_>, op: &Op, stack: &mut Vec<AnyPlace>, log: &RefCell<Log>, top: bool) -> OpOut {
    let len_before = enc.len();
    log.borrow_mut().n_ops += 1;
    let out = match op {
        Op::SetMax(n) => {
            enc.set_max_size(*n);
            let mut l = log.borrow_mut();
            if l.name_emax_unrolled && (*n as usize) > l.max {
                l.poisoned = true;
            }
            l.max = *n as usize;
            OpOut::Ok("ok".into())
        }
        Op::Canon(b) => {
            enc.canonical_form = *b;
            OpOut::Ok("ok".into())
        }
        Op::Ne(m) => {
            enc.name_encoding = *m;
            OpOut::Ok("ok".into())
        }
        Op::Slice(b) => unit(enc.emit_slice(b)),
        Op::U8(v) => unit(v.emit(enc)),
        Op::U16(v) => unit(v.emit(enc)),
        Op::U32(v) => unit(v.emit(enc)),
        Op::Cd(b) => unit(enc.emit_character_data(b)),
        Op::Name(mode, n) => {
            let lowercase = match mode {
                Some(NameEncoding::UncompressedLowercase) => true,
                Some(_) => false,
                None => matches!(enc.name_encoding, NameEncoding::UncompressedLowercase),
            };
            emit_name(enc, n, lowercase, log, top, |enc| match mode {
                None => n.emit(enc),
                Some(m) => {
                    let mut g = enc.with_name_encoding(*m);
                    n.emit(&mut g)
                }
            })
        }
        Op::Rd(k, n) => {
            // expected letter case by the documented table: canonical form lower-cases
            // StandardRecord and Canonical types, nothing else changes the case
            let lowercase = match (k, enc.canonical_form) {
                (RDataEncoding::StandardRecord, true) | (RDataEncoding::Canonical, true) => true,
                (RDataEncoding::StandardRecord, false) => matches!(enc.name_encoding, NameEncoding::UncompressedLowercase),
                _ => false,
            };
            emit_name(enc, n, lowercase, log, top, |enc| {
                let mut g = enc.with_rdata_behavior(*k);
                n.emit(&mut g)
            })
        }
        Op::Pl(k, u) => {
            let r = if *u {
                enc.place::<u16>().map(AnyPlace::U)
            } else {
                match k {
                    1 => enc.place::<Blob<1>>().map(AnyPlace::B1),
                    2 => enc.place::<Blob<2>>().map(AnyPlace::B2),
                    3 => enc.place::<Blob<3>>().map(AnyPlace::B3),
                    4 => enc.place::<Blob<4>>().map(AnyPlace::B4),
                    12 => enc.place::<Blob<12>>().map(AnyPlace::B12),
                    _ => return OpOut::Bad,
                }
            };
            match r {
                Ok(p) => {
                    stack.push(p);
                    OpOut::Ok("ok".into())
                }
                Err(e) => OpOut::Err(e),
            }
        }
        Op::Rp(b) => match stack.pop() {
            Some(AnyPlace::B1(p)) => unit(p.replace(enc, Blob(b.clone()))),
            Some(AnyPlace::B2(p)) => unit(p.replace(enc, Blob(b.clone()))),
            Some(AnyPlace::B3(p)) => unit(p.replace(enc, Blob(b.clone()))),
            Some(AnyPlace::B4(p)) => unit(p.replace(enc, Blob(b.clone()))),
            Some(AnyPlace::B12(p)) => unit(p.replace(enc, Blob(b.clone()))),
            Some(other) => {
                stack.push(other);
                OpOut::Ok("noplace".into())
            }
            None => OpOut::Ok("noplace".into()),
        },
        Op::Rpu(v) => match stack.pop() {
            Some(AnyPlace::U(p)) => unit(p.replace(enc, *v)),
            Some(other) => {
                stack.push(other);
                OpOut::Ok("noplace".into())
            }
            None => OpOut::Ok("noplace".into()),
        },
        Op::Rpl => match stack.pop() {
            // the RDLENGTH back-patch of `Record::emit`
            Some(AnyPlace::U(p)) => {
                let len = enc.len_since_place(&p);
                unit(p.replace(enc, len as u16))
            }
            Some(other) => {
                stack.push(other);
                OpOut::Ok("noplace".into())
            }
            None => OpOut::Ok("noplace".into()),
        },
        Op::Lsp => match stack.last() {
            Some(AnyPlace::B1(p)) => OpOut::Ok(format!("={}", enc.len_since_place(p))),
            Some(AnyPlace::B2(p)) => OpOut::Ok(format!("={}", enc.len_since_place(p))),
            Some(AnyPlace::B3(p)) => OpOut::Ok(format!("={}", enc.len_since_place(p))),
            Some(AnyPlace::B4(p)) => OpOut::Ok(format!("={}", enc.len_since_place(p))),
            Some(AnyPlace::B12(p)) => OpOut::Ok(format!("={}", enc.len_since_place(p))),
            Some(AnyPlace::U(p)) => OpOut::Ok(format!("={}", enc.len_since_place(p))),
            None => OpOut::Ok("noplace".into()),
        },
        Op::Trim => {
            enc.trim();
            OpOut::Ok("ok".into())
        }
        Op::Slp(s, e) => {
            enc.store_label_pointer(*s, *e);
            OpOut::Ok("ok".into())
        }
        Op::Glp(s, e) => match enc.get_label_pointer(*s, *e) {
            None => OpOut::Ok("=none".into()),
            Some(v) => OpOut::Ok(format!("={v}")),
        },
        Op::So(s, e) => OpOut::Ok(format!("={}", hex(enc.slice_of(*s, *e)))),
        Op::Iter(items) => {
            let its: Vec<Item<'_>> = items.iter().map(|ops| Item { ops, log }).collect();
            match enc.emit_iter(its.iter()) {
                Ok(c) => OpOut::Ok(format!("ok:{c}")),
                Err(e) => {
                    if matches!(e, ProtoError::NotAllRecordsWritten { .. }) {
                        // names of the rolled-back item are gone
                        let len = enc.len();
                        let mut l = log.borrow_mut();
                        l.names.retain(|n| n.start < len && n.end <= len);
                        if !top {
                            l.nested_naw = true;
                        }
                    }
                    OpOut::Err(e)
                }
            }
        }
    };
    // C03 clause "never more than the limit": a buffer only ever grows up to the limit in force
    let len_after = enc.len();
    let mut l = log.borrow_mut();
    if len_after > len_before && len_after > l.max {
        let what = format!("buffer grew from {len_before} to {len_after} past max_size {}", l.max);
        l.fails.push(what);
    }
    if let OpOut::Err(e) = &out {
        match e {
            ProtoError::MaxBufferSizeExceeded(_) => l.n_emax += 1,
            ProtoError::NotAllRecordsWritten { .. } => l.n_naw += 1,
            _ => l.n_err += 1,
        }
    }
    out
}

fn fnv1a(b: &[u8]) -> u64 {
    let mut h: u64 = 14695981039346656037;
    for x in b {
        h = (h ^ (*x as u64)).wrapping_mul(1099511628211);
    }
    h
}

fn show_buf(b: &[u8]) -> String {
    let n = b.len();
    format!("len={} h={} buf={}", n, fnv1a(b), hex(if n <= 1024 { b } else { &b[n - 512..] }))
}

fn snapshot(enc: &BinEncoder<'_>) -> Vec<u8> {
    if enc.len() == 0 || enc.is_empty() {
        return vec![];
    }
    // `slice_of` asserts start < offset; in a non-appending state this may not hold
    match catch(|| enc.slice_of(0, enc.len()).to_vec()) {
        Ok(v) => v,
        Err(_) => vec![],
    }
}

pub struct ScriptResult {
    pub out: String,
    pub buf: Vec<u8>,
    pub log: Log,
    /// (index of the top-level op, count, buffer right after it) for every top-level `emit_iter`
    /// that returned NotAllRecordsWritten
    pub naws: Vec<(usize, usize, Vec<u8>)>,
    pub bad: bool,
}

/// runs the script on the real encoder; `stop_after` = run only ops[..=k]
pub fn run_script(init: &Init, ops: &[Op], appending: &mut bool) -> ScriptResult {
    let (mut buf, off): (Vec<u8>, Option<u32>) = match init {
        Init::Empty => (vec![], None),
        Init::New(b) => (b.clone(), None),
        Init::WithOffset(b, k) => (b.clone(), Some(*k)),
    };
    *appending = match init {
        Init::Empty => true,
        Init::New(b) => b.is_empty(),
        Init::WithOffset(b, k) => b.len() == *k as usize,
    };
    let log = RefCell::new(Log { max: u16::MAX as usize, ..Default::default() });
    let mut statuses = vec![];
    let mut naws = vec![];
    let mut bad = false;
    {
        let mut enc = match off {
            None => BinEncoder::new(&mut buf),
            Some(k) => BinEncoder::with_offset(&mut buf, k),
        };
        let mut stack = vec![];
        for (i, op) in ops.iter().enumerate() {
            log.borrow_mut().nested_naw = false;
            match run_op(&mut enc, op, &mut stack, &log, true) {
                OpOut::Ok(s) => statuses.push(s),
                OpOut::Err(e) => {
                    if let (Op::Iter(_), ProtoError::NotAllRecordsWritten { count, .. }) = (op, &e) {
                        // the prefix clause speaks about the emit_iter that rolled back, not about
                        // an error passed through from an emit_iter nested inside one of its items
                        if !log.borrow().nested_naw {
                            naws.push((i, *count, snapshot(&enc)));
                        }
                    }
                    statuses.push(err_str(&e));
                }
                OpOut::Bad => {
                    bad = true;
                    break;
                }
            }
        }
    }
    let out = format!("{} {}", statuses.join(","), show_buf(&buf));
    ScriptResult { out, buf, log: log.into_inner(), naws, bad }
}

/// the buffer right after top-level op `k` when that op is replaced by `replacement`
fn rerun_prefix(init: &Init, ops: &[Op], k: usize, replacement: Op) -> Option<(String, Vec<u8>)> {
    let mut ops2: Vec<Op> = ops[..k].to_vec();
    ops2.push(replacement);
    let mut app = true;
    let r = catch(|| run_script(init, &ops2, &mut app)).ok()?;
    let last = r.out.split(' ').next()?.rsplit(',').next()?.to_string();
    Some((last, r.buf))
}

pub struct Verdict {
    pub out: String,
    pub fails: Vec<String>,
    pub compressed_names: usize,
    pub checked_names: usize,
    pub log: Log,
    pub n_naw_checked: usize,
    pub final_len: usize,
}

/// Runs one parsed script and evaluates the oracles (independent of the model):
///  * C02: every name written successfully (and not rolled back) decodes with the real
///    `Name::read` at its start offset to exactly the labels given (lower-cased in the lowercase
///    modes), as an fqdn name, ending where the encoder stopped;
///  * C03: the buffer never grows past the limit in force; after `NotAllRecordsWritten{count}`
///    the buffer is byte-for-byte the one obtained by emitting only the first `count` items.
pub fn run_and_judge(init: &Init, ops: &[Op]) -> Option<Verdict> {
    let mut appending = true;
    let r = run_script(init, ops, &mut appending);
    if r.bad {
        return None;
    }
    let mut fails = r.log.fails.clone();
    let mut compressed = 0;
    let mut checked = 0;
    if appending && !r.log.poisoned {
        for nr in &r.log.names {
            if nr.start > u16::MAX as usize {
                continue;
            }
            checked += 1;
            if nr.end - nr.start < nr.uncompressed_len {
                compressed += 1;
            }
            let d0 = BinDecoder::new(&r.buf);
            let mut d = d0.clone(nr.start as u16);
            match Name::read(&mut d) {
                Ok(back) => {
                    let got: Vec<Vec<u8>> = back.iter().map(|l| l.to_vec()).collect();
                    if got != nr.want || !back.is_fqdn() {
                        fails.push(format!(
                            "name written at {} decodes to {} instead of {}",
                            nr.start,
                            name_tok(&back),
                            labels_tok(&nr.want)
                        ));
                    } else if d.index() != nr.end {
                        fails.push(format!("name written at {}..{} decodes but ends at {}", nr.start, nr.end, d.index()));
                    }
                }
                Err(e) => fails.push(format!("name written at {} does not decode: {e}", nr.start)),
            }
            if nr.end - nr.start > 255 {
                fails.push(format!("name at {} occupies {} > 255 octets", nr.start, nr.end - nr.start));
            }
        }
    }
    let mut n_naw_checked = 0;
    if appending {
        for (k, count, snap) in &r.naws {
            if let Op::Iter(items) = &ops[*k] {
                let cut = Op::Iter(items[..*count].to_vec());
                match rerun_prefix(init, ops, *k, cut) {
                    Some((st, buf2)) => {
                        n_naw_checked += 1;
                        if st != format!("ok:{count}") {
                            fails.push(format!("emit_iter said NotAllRecordsWritten{{{count}}} but emitting the first {count} items alone gives {st}"));
                        } else if &buf2 != snap {
                            fails.push(format!(
                                "after NotAllRecordsWritten{{{count}}} the buffer ({} octets) differs from emitting the first {count} items alone ({} octets): the rolled-back item left a trace",
                                snap.len(),
                                buf2.len()
                            ));
                        }
                    }
                    None => fails.push("re-run of the script prefix failed".into()),
                }
            }
        }
    }
    let final_len = r.buf.len();
    Some(Verdict { out: r.out, fails, compressed_names: compressed, checked_names: checked, log: r.log, n_naw_checked, final_len })
}

/// executes one case line; `nontrivial(v)` is the property's rule
pub fn exec(line: &str, rec: &mut Recorder, nontrivial: impl Fn(&Verdict) -> bool) {
    let t: Vec<&str> = line.split_whitespace().collect();
    let Some((misuse, init, ops)) = parse_line(&t) else {
        rec.stat("skipped.unparsable-case");
        return;
    };
    match catch(|| run_and_judge(&init, &ops)) {
        Ok(Some(v)) => {
            let idx = rec.case(line.to_string(), v.out.clone());
            rec.stat(if misuse { "line.encx" } else { "line.enc" });
            rec.stat_n("ops", v.log.n_ops);
            rec.stat_n("names.emitted", v.log.n_names);
            rec.stat_n("names.round-trip-checked", v.checked_names as u64);
            rec.stat_n("names.written-with-pointer", v.compressed_names as u64);
            rec.stat_n("status.emax", v.log.n_emax);
            rec.stat_n("status.naw", v.log.n_naw);
            rec.stat_n("status.err-other", v.log.n_err);
            rec.stat_n("naw.prefix-checked", v.n_naw_checked as u64);
            if v.log.n_names > 120 {
                rec.stat("script.names>120");
            }
            if v.final_len >= 0x3FFF {
                rec.stat("script.len>=0x3FFF");
            }
            if v.log.poisoned {
                rec.stat("script.used-after-unrolled-name-failure(no round-trip oracle)");
            }
            if nontrivial(&v) {
                rec.nontrivial(idx);
            }
            for f in v.fails {
                rec.fail(idx, f, "");
            }
        }
        Ok(None) => rec.stat("skipped.bad-script"),
        Err(p) => {
            let idx = rec.case(line.to_string(), "panic".into());
            rec.stat(if misuse { "line.encx" } else { "line.enc" });
            rec.stat("status.panic");
            if !misuse {
                rec.fail(idx, format!("panic: {p}"), "");
            }
        }
    }
}

// ------------------------------------------------------------------ generator helpers

pub fn mode_tok(r: &mut Rng) -> &'static str {
    match r.below(10) {
        0 => "u",
        1 => "l",
        2 => "d",
        _ => "c",
    }
}

pub fn rand_case(r: &mut Rng, l: &[u8], p_num: u64, p_den: u64) -> Vec<u8> {
    l.iter()
        .map(|c| {
            if r.chance(p_num, p_den) {
                if c.is_ascii_lowercase() { c - 32 } else if c.is_ascii_uppercase() { c + 32 } else { *c }
            } else {
                *c
            }
        })
        .collect()
}

pub fn small_label(r: &mut Rng) -> Vec<u8> {
    let len = match r.below(8) {
        0 => 1,
        1 => r.range(1, 12) as usize,
        _ => r.range(1, 4) as usize,
    };
    (0..len)
        .map(|_| match r.below(14) {
            0 => r.byte(),
            1 => *r.pick(&[0u8, 0xC0, 0xFF, b'.', 0x40]),
            _ => *r.pick(b"abAB01zZ"),
        })
        .collect()
}

pub fn name_from(labels: &[Vec<u8>]) -> Option<String> {
    let wire: usize = labels.iter().map(|l| l.len() + 1).sum::<usize>() + 1;
    if wire > 255 || labels.iter().any(|l| l.is_empty() || l.len() > 63) {
        return None;
    }
    Some(format!("F:{}", labels_tok(labels)))
}
