//! Shared plumbing of the correspondence harness: PRNG, hex/name tokens, the run recorder.
#![allow(dead_code)]

use std::collections::{BTreeMap, HashSet};
use std::fmt::Write as _;
use std::hash::{Hash, Hasher};
use std::io::Write as _;
use std::path::{Path, PathBuf};

use hickory_proto::rr::Name;

/// splitmix64: every random choice of a run derives from one `VERIF_SEED`.
#[derive(Clone)]
pub struct Rng(pub u64);

impl Rng {
    pub fn new(seed: u64) -> Self {
        Self(seed ^ 0x9E37_79B9_7F4A_7C15)
    }
    pub fn next(&mut self) -> u64 {
        self.0 = self.0.wrapping_add(0x9E37_79B9_7F4A_7C15);
        let mut z = self.0;
        z = (z ^ (z >> 30)).wrapping_mul(0xBF58_476D_1CE4_E5B9);
        z = (z ^ (z >> 27)).wrapping_mul(0x94D0_49BB_1331_11EB);
        z ^ (z >> 31)
    }
    /// uniform in 0..n (n > 0)
    pub fn below(&mut self, n: u64) -> u64 {
        self.next() % n
    }
    pub fn range(&mut self, lo: u64, hi_incl: u64) -> u64 {
        lo + self.below(hi_incl - lo + 1)
    }
    pub fn chance(&mut self, num: u64, den: u64) -> bool {
        self.below(den) < num
    }
    pub fn pick<'a, T>(&mut self, xs: &'a [T]) -> &'a T {
        &xs[self.below(xs.len() as u64) as usize]
    }
    pub fn byte(&mut self) -> u8 {
        self.next() as u8
    }
    pub fn bytes(&mut self, n: usize) -> Vec<u8> {
        (0..n).map(|_| self.byte()).collect()
    }
    pub fn fork(&mut self) -> Rng {
        Rng(self.next())
    }
}

pub fn hex(b: &[u8]) -> String {
    if b.is_empty() {
        return "-".into();
    }
    let mut s = String::with_capacity(b.len() * 2);
    for x in b {
        write!(s, "{x:02x}").unwrap();
    }
    s
}

pub fn unhex(s: &str) -> Option<Vec<u8>> {
    if s == "-" {
        return Some(vec![]);
    }
    if s.len() % 2 != 0 {
        return None;
    }
    (0..s.len() / 2)
        .map(|i| u8::from_str_radix(s.get(2 * i..2 * i + 2)?, 16).ok())
        .collect()
}

/// Name token: `F:`/`R:` + labels in hex separated by `.`
pub fn name_tok(n: &Name) -> String {
    let labels: Vec<String> = n.iter().map(hex).collect();
    format!("{}:{}", if n.is_fqdn() { "F" } else { "R" }, labels.join("."))
}

pub fn labels_tok(ls: &[Vec<u8>]) -> String {
    ls.iter().map(|l| hex(l)).collect::<Vec<_>>().join(".")
}

pub fn parse_labels(s: &str) -> Option<Vec<Vec<u8>>> {
    if s.is_empty() {
        return Some(vec![]);
    }
    s.split('.').map(unhex).collect()
}

/// Builds a `Name` from a token; `None` if the token does not denote a valid `Name` value.
pub fn parse_name(tok: &str) -> Option<Name> {
    let (flag, rest) = tok.split_once(':')?;
    let labels = parse_labels(rest)?;
    let mut n = Name::from_labels(labels.iter().map(|l| &l[..])).ok()?;
    match flag {
        "F" => n.set_fqdn(true),
        "R" => n.set_fqdn(false),
        _ => return None,
    }
    Some(n)
}

pub fn res_tok<T, E>(r: &Result<T, E>, f: impl Fn(&T) -> String) -> String {
    match r {
        Ok(v) => format!("ok {}", f(v)),
        Err(_) => "err".into(),
    }
}

pub fn b(x: bool) -> &'static str {
    if x { "1" } else { "0" }
}

#[derive(Debug, Clone)]
pub struct OracleFail {
    pub case_idx: usize,
    pub case: String,
    pub what: String,
    /// known-finding class this failure belongs to ("" = none)
    pub class: String,
}

/// Collects everything a run produces.
pub struct Recorder {
    pub prop: String,
    pub out_dir: PathBuf,
    pub cases: Vec<String>,
    pub impl_out: Vec<String>,
    pub fails: Vec<OracleFail>,
    pub stats: BTreeMap<String, u64>,
    pub samples: Vec<String>,
    pub nontrivial: HashSet<u64>,
    pub rule: String,
    /// lines with no model side (implementation-vs-oracle only)
    pub impl_only: u64,
    pub corpus_cases: usize,
}

impl Recorder {
    pub fn new(prop: &str, out_dir: &Path) -> Self {
        Self {
            prop: prop.into(),
            out_dir: out_dir.into(),
            cases: vec![],
            impl_out: vec![],
            fails: vec![],
            stats: BTreeMap::new(),
            samples: vec![],
            nontrivial: HashSet::new(),
            rule: String::new(),
            impl_only: 0,
            corpus_cases: 0,
        }
    }

    /// Writes the case line(s) about to be executed to `<out>/CURRENT.case` (overwritten each time). If the
    /// process dies inside the code under test (abort, stack overflow), `bin/check` reports that case.
    /// For a history, pass the whole block so far.
    pub fn announce(&self, lines: &str) {
        let _ = std::fs::create_dir_all(&self.out_dir);
        let _ = std::fs::write(self.out_dir.join("CURRENT.case"), lines);
    }

    /// The run finished normally: nothing is "current" any more.
    pub fn announce_done(&self) {
        let _ = std::fs::remove_file(self.out_dir.join("CURRENT.case"));
    }

    pub fn stat(&mut self, k: &str) {
        *self.stats.entry(k.to_string()).or_insert(0) += 1;
    }
    pub fn stat_n(&mut self, k: &str, n: u64) {
        *self.stats.entry(k.to_string()).or_insert(0) += n;
    }

    /// Records one case line together with the implementation's canonical answer.
    pub fn case(&mut self, line: String, impl_out: String) -> usize {
        debug_assert!(!line.contains('\n') && !impl_out.contains('\n'));
        self.cases.push(line);
        self.impl_out.push(impl_out);
        self.cases.len() - 1
    }

    /// Marks the last recorded case as distinct & non-trivial (by the property's rule).
    pub fn nontrivial(&mut self, idx: usize) {
        let mut h = std::collections::hash_map::DefaultHasher::new();
        self.cases[idx].hash(&mut h);
        self.nontrivial.insert(h.finish());
        if self.samples.len() < 12 && (self.nontrivial.len() % 97 == 1 || self.samples.len() < 3) {
            let c = &self.cases[idx];
            let c = if c.len() > 400 { format!("{}…", &c[..400]) } else { c.clone() };
            self.samples.push(format!("{} => {}", c, self.impl_out[idx]));
        }
    }

    pub fn fail(&mut self, idx: usize, what: impl Into<String>, class: &str) {
        self.fails.push(OracleFail {
            case_idx: idx,
            case: self.cases.get(idx).cloned().unwrap_or_default(),
            what: what.into(),
            class: class.into(),
        });
    }

    pub fn finish(&self) -> std::io::Result<()> {
        std::fs::create_dir_all(&self.out_dir)?;
        self.announce_done();
        let mut f = std::io::BufWriter::new(std::fs::File::create(self.out_dir.join("cases.txt"))?);
        for c in &self.cases {
            writeln!(f, "{c}")?;
        }
        f.flush()?;
        let mut f = std::io::BufWriter::new(std::fs::File::create(self.out_dir.join("impl.txt"))?);
        for c in &self.impl_out {
            writeln!(f, "{c}")?;
        }
        f.flush()?;
        let mut f = std::io::BufWriter::new(std::fs::File::create(self.out_dir.join("oracle.jsonl"))?);
        for x in &self.fails {
            writeln!(
                f,
                "{{\"case_idx\":{},\"case\":{},\"what\":{},\"class\":{}}}",
                x.case_idx,
                json_str(&x.case),
                json_str(&x.what),
                json_str(&x.class)
            )?;
        }
        f.flush()?;
        let mut s = String::new();
        s.push_str("{\n");
        write!(s, "  \"evaluations\": {},\n", self.cases.len()).unwrap();
        write!(s, "  \"distinct_nontrivial\": {},\n", self.nontrivial.len()).unwrap();
        write!(s, "  \"impl_only\": {},\n", self.impl_only).unwrap();
        write!(s, "  \"corpus_cases\": {},\n", self.corpus_cases).unwrap();
        write!(s, "  \"rule\": {},\n", json_str(&self.rule)).unwrap();
        write!(s, "  \"oracle_failures\": {},\n", self.fails.len()).unwrap();
        s.push_str("  \"samples\": [");
        for (i, x) in self.samples.iter().enumerate() {
            if i > 0 {
                s.push_str(", ");
            }
            s.push_str(&json_str(x));
        }
        s.push_str("],\n  \"distribution\": {");
        for (i, (k, v)) in self.stats.iter().enumerate() {
            if i > 0 {
                s.push_str(", ");
            }
            write!(s, "{}: {}", json_str(k), v).unwrap();
        }
        s.push_str("}\n}\n");
        std::fs::write(self.out_dir.join("stats.json"), s)?;
        Ok(())
    }
}

pub fn json_str(s: &str) -> String {
    let mut o = String::with_capacity(s.len() + 2);
    o.push('"');
    for c in s.chars() {
        match c {
            '"' => o.push_str("\\\""),
            '\\' => o.push_str("\\\\"),
            '\n' => o.push_str("\\n"),
            '\r' => o.push_str("\\r"),
            '\t' => o.push_str("\\t"),
            c if (c as u32) < 0x20 => write!(o, "\\u{:04x}", c as u32).unwrap(),
            c => o.push(c),
        }
    }
    o.push('"');
    o
}

/// Runs `f`, turning a Rust panic into `Err(message)`.
pub fn catch<T>(f: impl FnOnce() -> T) -> Result<T, String> {
    match std::panic::catch_unwind(std::panic::AssertUnwindSafe(f)) {
        Ok(v) => Ok(v),
        Err(e) => Err(if let Some(s) = e.downcast_ref::<&str>() {
            s.to_string()
        } else if let Some(s) = e.downcast_ref::<String>() {
            s.clone()
        } else {
            "panic".into()
        }),
    }
}

pub struct Opts {
    pub tier: String,
    pub seed: u64,
    pub out: PathBuf,
    /// case lines to run before (or, for a replay, instead of) generated ones
    pub pre_lines: Vec<String>,
    pub replay_only: bool,
}

impl Opts {
    pub fn thorough(&self) -> bool {
        self.tier == "thorough"
    }
    /// number of generated cases: quick `q`, thorough `t`
    pub fn n(&self, q: usize, t: usize) -> usize {
        if self.replay_only { 0 } else if self.thorough() { t } else { q }
    }
}
