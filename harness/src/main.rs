//! hkverif — correspondence harness: runs the real hickory-dns code on generated / corpus /
//! replayed cases and records, per case, the canonical implementation output (to be diffed with
//! the Lean model's output) and the verdict of the property's own oracle.
mod common;
mod props;

use common::{Opts, Recorder};
use std::path::PathBuf;

fn main() {
    let args: Vec<String> = std::env::args().collect();
    if args.len() < 2 {
        eprintln!("usage: hkverif <cNN> [--tier quick|thorough] [--seed N] [--out DIR] [--lines FILE]... [--replay-only]");
        std::process::exit(2);
    }
    let prop = args[1].to_lowercase();
    let mut o = Opts {
        tier: "quick".into(),
        seed: 1,
        out: PathBuf::from("run").join(&prop),
        pre_lines: vec![],
        replay_only: false,
    };
    let mut i = 2;
    while i < args.len() {
        match args[i].as_str() {
            "--tier" => {
                o.tier = args[i + 1].clone();
                i += 1
            }
            "--seed" => {
                o.seed = args[i + 1].parse().expect("seed");
                i += 1
            }
            "--out" => {
                o.out = PathBuf::from(&args[i + 1]);
                i += 1
            }
            "--lines" => {
                let txt = std::fs::read_to_string(&args[i + 1]).expect("lines file");
                o.pre_lines.extend(
                    txt.lines().map(str::trim).filter(|l| !l.is_empty() && !l.starts_with('#')).map(String::from),
                );
                i += 1
            }
            "--replay-only" => o.replay_only = true,
            x => panic!("unknown arg {x}"),
        }
        i += 1;
    }
    // keep panics of the code under test quiet; they are caught and reported per case
    std::panic::set_hook(Box::new(|_| {}));
    let mut rec = Recorder::new(&prop, &o.out);
    if !props::run(&prop, &o, &mut rec) {
        eprintln!("unknown property {prop}");
        std::process::exit(2);
    }
    rec.finish().expect("write outputs");
    println!(
        "hkverif {prop}: cases={} nontrivial={} oracle_failures={}",
        rec.cases.len(),
        rec.nontrivial.len(),
        rec.fails.len()
    );
}
