#!/bin/sh
cd /verif
bin/setup > /dev/null 2>&1
for i in 01 02 03 04 05 06 07 08 09 10 11 12 13 14 15 16 17 18 19 20; do echo "== C$i $(date +%T)"; bin/check C$i --tier thorough 2>&1 | grep -E "^(OK|VIOLATION)" | cut -c1-200; done
echo ALL-DONE
