#!/bin/sh
# tools/merge_branch.sh <branch> : merge a property branch into main, resolving the two files that
# every branch touches (known-findings.json: union; MANIFEST.json: regenerated).
set -e
cd "$(dirname "$0")/.."
b="$1"
if ! git merge --no-edit --no-commit "$b" >/tmp/merge.out 2>&1; then
  cat /tmp/merge.out | grep CONFLICT || true
fi
python3 - <<'PY'
import json, subprocess
def show(stage):
    try: return json.loads(subprocess.check_output(['git','show',f':{stage}:known-findings.json'], stderr=subprocess.DEVNULL))
    except Exception: return None
base, ours, theirs = show(1), show(2), show(3)
if ours and theirs:
    base = base or {"findings": [], "fixed": []}
    props = {f['property'] for k in (base, ours, theirs) for f in k['findings']}
    def of(k, p): return [f for f in k['findings'] if f['property'] == p]
    out = []
    for p in sorted(props):
        # per property: the side that changed the list relative to the merge base wins (a branch that moved its
        # findings to `fixed` must not get them back from the other side)
        out += of(theirs, p) if of(theirs, p) != of(base, p) else of(ours, p)
    ours['findings'] = out
    for x in theirs.get('fixed', []):
        if x not in ours.setdefault('fixed', []): ours['fixed'].append(x)
    json.dump(ours, open('known-findings.json','w'), indent=1)
PY
# harness/Cargo.toml: dependency lines added by different branches -> keep both sides
if git diff --name-only --diff-filter=U | grep -q '^harness/Cargo.toml$'; then
  python3 - <<'PY'
p='harness/Cargo.toml'
out=[]; seen=set()
for l in open(p):
    if l.startswith('<<<<<<<') or l.startswith('=======') or l.startswith('>>>>>>>'): continue
    key=l.strip()
    if key and key in seen and '=' in key: continue
    seen.add(key); out.append(l)
open(p,'w').write(''.join(out))
PY
  git add harness/Cargo.toml
fi
if git diff --name-only --diff-filter=U | grep -q '^tools/extract_consts.py$'; then
  python3 - <<'PY'
p='tools/extract_consts.py'
out=[]
for l in open(p):
    if l.startswith('<<<<<<<') or l.startswith('=======') or l.startswith('>>>>>>>'): continue
    out.append(l)
open(p,'w').write(''.join(out))
PY
  git add tools/extract_consts.py
fi
for f in $(git diff --name-only --diff-filter=U | grep "^lean/HickoryVerif/Generated/" || true); do git checkout --ours "$f"; git add "$f"; done
if git diff --name-only --diff-filter=U | grep -q '^harness/Cargo.lock$'; then
  git checkout --ours harness/Cargo.lock; git add harness/Cargo.lock
fi
for f in $(git diff --name-only --diff-filter=U | grep "^evidence/\|^checks/C" || true); do git checkout --theirs "$f"; git add "$f"; done
git checkout --ours MANIFEST.json 2>/dev/null || true
python3 tools/extract_consts.py >/dev/null 2>&1 || true
git add lean/HickoryVerif/Generated 2>/dev/null || true
python3 tools/gen_manifest.py
git add known-findings.json MANIFEST.json
left=$(git diff --name-only --diff-filter=U)
if [ -n "$left" ]; then echo "UNRESOLVED: $left"; exit 1; fi
# dedupe dependency keys (two branches may add the same crate with different spellings)
python3 - <<'PY'
import re
p='harness/Cargo.toml'
out=[]; seen=set(); sect=None
for l in open(p):
    m=re.match(r'\[(.*)\]',l.strip())
    if m: sect=m.group(1)
    k=re.match(r'([A-Za-z0-9_-]+)\s*=',l)
    if sect=='dependencies' and k:
        if k.group(1) in seen: continue
        seen.add(k.group(1))
    out.append(l)
open(p,'w').write(''.join(out))
PY
git add harness/Cargo.toml
(cd harness && CARGO_NET_OFFLINE=true cargo build --offline 2>&1 | grep -E "^error" -A6 | head -20) || true
git add harness/Cargo.lock 2>/dev/null || true
git commit -qm "merge $b" && echo "merged $b"
