#!/bin/sh
# tools/merge_branch.sh <branch> : merge a property branch into main, resolving the two files that
# every branch touches (known-findings.json: union; MANIFEST.json: regenerated).
set -e
cd "$(dirname "$0")/.."
b="$1"
if ! git merge --no-edit --no-commit "$b" >/tmp/merge.out 2>&1; then
  cat /tmp/merge.out | grep CONFLICT || true
fi
python3 - <<'PY'
import json, subprocess
def show(stage):
    try: return json.loads(subprocess.check_output(['git','show',f':{stage}:known-findings.json'], stderr=subprocess.DEVNULL))
    except Exception: return None
ours, theirs = show(2), show(3)
if ours and theirs:
    ids = {f['id'] for f in ours['findings']}
    for f in theirs['findings']:
        if f['id'] not in ids: ours['findings'].append(f)
    for x in theirs.get('fixed', []):
        if x not in ours.setdefault('fixed', []): ours['fixed'].append(x)
    json.dump(ours, open('known-findings.json','w'), indent=1)
PY
git checkout --ours MANIFEST.json 2>/dev/null || true
python3 tools/gen_manifest.py
git add known-findings.json MANIFEST.json
left=$(git diff --name-only --diff-filter=U)
if [ -n "$left" ]; then echo "UNRESOLVED: $left"; exit 1; fi
git commit -qm "merge $b" && echo "merged $b"
