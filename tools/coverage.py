#!/usr/bin/env python3
"""tools/coverage.py [PID ...]   — development aid, NOT part of any registered check.

Measures which parts of each property's anchored source files (properties.jsonl -> anchors.files)
the QUICK correspondence run of that property executes, so that blind spots of the generators are
found systematically rather than by seeded changes.  Builds an instrumented copy of the harness
with the nightly toolchain (-C instrument-coverage; llvm-cov / llvm-profdata ship with it) in a
scratch directory outside /verif and /repo, runs `hkverif cNN --tier quick` exactly as bin/check
does (corpus first), and writes

    coverage/<PID>.txt      per anchored file: line / region / function coverage, then every
                            function of those files that was never executed and every uncovered
                            line range inside functions that were executed

Scratch: $COV_DIR (default /root/work/cov); remove it when done (`rm -rf`).
"""
import json, os, re, shutil, subprocess, sys

ROOT = os.path.dirname(os.path.dirname(os.path.abspath(__file__)))
COV = os.environ.get("COV_DIR", "/root/work/cov")
REPO = os.environ.get("HK_REPO", "/repo")
TC = "nightly"
BIN = None
for d in sorted(os.listdir(os.path.expanduser("~/.rustup/toolchains"))):
    p = os.path.expanduser(f"~/.rustup/toolchains/{d}/lib/rustlib/x86_64-unknown-linux-gnu/bin")
    if d.startswith("nightly") and os.path.exists(os.path.join(p, "llvm-cov")):
        BIN, TC = p, d
if not BIN:
    sys.exit("no toolchain with llvm-cov found")

props = {}
for l in open(os.path.join(ROOT, "properties.jsonl")):
    p = json.loads(l)
    props[p["id"]] = p
pids = sys.argv[1:] or sorted(props)


def sh(cmd, **kw):
    return subprocess.run(cmd, stdout=subprocess.PIPE, stderr=subprocess.STDOUT, text=True, input="", **kw)


def build():
    h = os.path.join(COV, "harness")
    os.makedirs(COV, exist_ok=True)
    if os.path.exists(h):
        for f in os.listdir(h):
            if f != "target":
                p = os.path.join(h, f)
                shutil.rmtree(p) if os.path.isdir(p) else os.remove(p)
    for f in os.listdir(os.path.join(ROOT, "harness")):
        if f == "target":
            continue
        s, d = os.path.join(ROOT, "harness", f), os.path.join(h, f)
        shutil.copytree(s, d) if os.path.isdir(s) else (os.makedirs(h, exist_ok=True), shutil.copy2(s, d))
    cfg = os.path.join(h, ".cargo", "config.toml")
    t = open(cfg).read().replace('"hickory_dns_verif"]', '"hickory_dns_verif", "-C", "instrument-coverage"]')
    open(cfg, "w").write(t)
    if REPO != "/repo":
        ct = os.path.join(h, "Cargo.toml")
        open(ct, "w").write(open(ct).read().replace("/repo/", REPO.rstrip("/") + "/"))
    # build scripts are instrumented too and would drop default_*.profraw into their package directory (under /repo)
    os.makedirs(os.path.join(COV, "build-prof"), exist_ok=True)
    r = sh(["cargo", f"+{TC}", "build", "--offline"], cwd=h,
           env=dict(os.environ, LLVM_PROFILE_FILE=os.path.join(COV, "build-prof", "b-%p-%m.profraw")))
    if r.returncode:
        sys.exit(r.stdout[-3000:])
    return os.path.join(h, "target", "debug", "hkverif")


def test_module_start(src):
    """1-based line of the trailing `#[cfg(test)] mod …` (a `#[cfg(test)] use …` / `fn …` near the
    top of a file is not the test module), or len+1"""
    for i, l in enumerate(src):
        if re.match(r"#\[cfg\(test\)\]", l) and i + 1 < len(src) and re.match(r"(pub(\(crate\))? )?mod\b", src[i + 1].strip()):
            return i + 1
    return len(src) + 1


def corpus_files(pid):
    d = os.path.join(ROOT, "corpus", pid)
    return [os.path.join(d, f) for f in sorted(os.listdir(d)) if f.endswith(".case")] if os.path.isdir(d) else []


def run(pid, hk):
    out = os.path.join(COV, "out", pid)
    shutil.rmtree(out, ignore_errors=True)
    os.makedirs(out)
    checks = json.load(open(os.path.join(ROOT, "checks", pid + ".json")))
    seed = checks.get("default_seed", int(pid[1:]))
    cmd = [hk, pid.lower(), "--tier", "quick", "--seed", str(seed), "--out", out]
    for f in corpus_files(pid):
        cmd += ["--lines", f]
    env = dict(os.environ, LLVM_PROFILE_FILE=os.path.join(out, "p-%p.profraw"))
    r = subprocess.run(cmd, env=env, stdout=subprocess.PIPE, stderr=subprocess.STDOUT, text=True, input="", timeout=3600)
    raws = [os.path.join(out, f) for f in os.listdir(out) if f.endswith(".profraw")]
    prof = os.path.join(out, "p.profdata")
    sh([os.path.join(BIN, "llvm-profdata"), "merge", "-sparse", "-o", prof] + raws)
    return prof, r.returncode


def report(pid, hk, prof):
    files = []
    for a in props[pid]["anchors"]["files"]:
        p = os.path.join(REPO, a)
        if os.path.isdir(p):
            for dp, _, fs in os.walk(p):
                files += [os.path.join(dp, f) for f in fs if f.endswith(".rs")]
        elif os.path.exists(p):
            files.append(p)
    files = sorted(set(files))
    cov = os.path.join(BIN, "llvm-cov")
    rep = sh([cov, "report", hk, f"-instr-profile={prof}"] + files).stdout
    exp = sh([cov, "export", hk, f"-instr-profile={prof}", "-format=text", "-skip-expansions"] + files).stdout
    lines = [f"# coverage of {pid}'s anchored files by its QUICK correspondence run (tools/coverage.py)", "", rep, ""]
    try:
        data = json.loads(exp)["data"][0]
    except Exception as e:
        lines.append(f"(export failed: {e})")
        data = {"functions": [], "files": []}
    dem = {}
    names = sorted({f["name"] for f in data["functions"]})
    if names:
        r = subprocess.run(["rustfilt"], input="\n".join(names), stdout=subprocess.PIPE, text=True) if shutil.which("rustfilt") else None
        if r and r.returncode == 0:
            dem = dict(zip(names, r.stdout.splitlines()))
    never = {}
    for f in data["functions"]:
        fn = f["filenames"][0]
        if fn not in files or "/tests" in fn:
            continue
        key = (fn, f["regions"][0][0] if f["regions"] else 0)
        never.setdefault(key, [0, dem.get(f["name"], f["name"])])
        never[key][0] += f["count"]
    lines.append("## functions of the anchored files that the run never entered (file:line name)")
    srcs = {}
    for (fn, ln), (cnt, name) in sorted(never.items()):
        if cnt == 0:
            src = srcs.setdefault(fn, open(fn, errors="replace").read().split("\n"))
            tm = test_module_start(src)
            if ln >= tm:
                continue
            text = src[ln - 1].strip()[:110] if 0 < ln <= len(src) else ""
            lines.append(f"  {os.path.relpath(fn, REPO)}:{ln}  {text}")
    lines.append("")
    lines.append("## uncovered line ranges inside the anchored files (merged; includes the functions above)")
    for f in data["files"]:
        fn = f["filename"]
        if fn not in files:
            continue
        unc = set()
        covd = set()
        for seg_a, seg_b in zip(f["segments"], f["segments"][1:] + [None]):
            line, col, count, has_count, is_entry = seg_a[:5]
            if not has_count or seg_b is None:
                continue
            rng = range(line, seg_b[0] + (1 if seg_b[1] > 1 else 0))
            (unc if count == 0 else covd).update(rng)
        unc -= covd
        if not unc:
            continue
        src = open(fn, errors="replace").read().split("\n")
        # drop test modules at the end of the file
        tm = test_module_start(src)
        u = sorted(x for x in unc if x < tm and x <= len(src) and src[x - 1].strip() and not src[x - 1].strip().startswith("//"))
        runs, start, prev = [], None, None
        for x in u:
            if start is None:
                start = prev = x
            elif x == prev + 1:
                prev = x
            else:
                runs.append((start, prev)); start = prev = x
        if start is not None:
            runs.append((start, prev))
        if runs:
            lines.append(f"  {os.path.relpath(fn, REPO)}: " + ", ".join(f"{a}" if a == b else f"{a}-{b}" for a, b in runs))
    os.makedirs(os.path.join(ROOT, "coverage"), exist_ok=True)
    open(os.path.join(ROOT, "coverage", pid + ".txt"), "w").write("\n".join(lines) + "\n")
    tot = [l for l in rep.splitlines() if l.startswith("TOTAL")]
    print(pid, tot[0] if tot else "(no total)")


hk = build()
for pid in pids:
    prof, rc = run(pid, hk)
    report(pid, hk, prof)
