#!/usr/bin/env python3
"""Prints the prompt given to a fresh sub-agent that seeds property-breaking changes (it sees only
the property text and a scratch worktree of /repo — nothing from /verif)."""
import json, sys, os
pid = sys.argv[1]; n = int(sys.argv[2]) if len(sys.argv) > 2 else 3
hint = sys.argv[3] if len(sys.argv) > 3 else ""
# ROUND2: mention what earlier rounds already tried, so that a new round explores other mechanisms
import os
prev = []
for d in sorted(os.listdir("/verif/seeded")) if os.path.isdir("/verif/seeded") else []:
    if d.startswith(pid + "-"):
        try: prev.append(json.load(open(f"/verif/seeded/{d}/meta.json")).get("summary", "")[:300].replace("\n", " "))
        except Exception: pass
suffix = os.environ.get("SEED_SUFFIX", "")
if prev:
    hint += " An earlier round already produced the following changes; produce changes of OTHER kinds, in other functions / clauses / mechanisms: " + " || ".join(prev)
p = [json.loads(l) for l in open('/verif/properties.jsonl') if json.loads(l)['id'] == pid][0]
low = pid.lower() + os.environ.get('SEED_SUFFIX', '')
files = ", ".join(p['anchors']['files'])
feat = {
 "proto": "cargo nextest run --offline -p hickory-proto --features dnssec-ring",
}
print(f"""You are helping evaluate a verification effort by writing realistic *bugs*. You have your own scratch git worktree of the Rust project hickory-dns at `/tmp/seed-{low}` (a worktree of the repository /repo; work ONLY inside /tmp/seed-{low}; never touch /repo or any other directory; every Bash call starts in a fresh shell so use `cd /tmp/seed-{low} && …`). The sandbox has no network: always pass `--offline` to cargo; the first build takes a few minutes. Optional cargo features that compile more of the code: hickory-proto `dnssec-ring`; hickory-net `dnssec-ring`; hickory-resolver `dnssec-ring,recursor`; hickory-server `sqlite,resolver,recursor,dnssec-ring` (the default-feature build used by the project's pinned suite does not compile DNSSEC / sqlite / recursor code).

The property (a promise the software makes to its users):
"{p['title']} — {p['statement']}"
It quantifies over: {p['quantifier']['text']}.
Why the existing tests cannot settle it: {p['why_tests_cant']}
Relevant code: {files}.

YOUR TASK: produce {n} independent, realistic changes to hickory-dns (each a separate small patch against the current HEAD of /tmp/seed-{low}) such that each change
 (a) still compiles (with default features AND with the optional features listed above for the crates you touch),
 (b) still passes the project's existing test suite: `cargo nextest run --offline --workspace --no-fail-fast` must show no NEW failure compared with a run on the unchanged tree (about 30 tests fail even on the unchanged tree because they need the network: resolver::tests::test_lookup_google etc., client async_client/readme_example, named_tests, test_query_udp_ipv4 …; run the suite once on the unchanged tree first and keep the list of failures for comparison),
 (c) BREAKS the property above, but only in a way that needs something specific to manifest — a particular interleaving, a fault at a particular point, a multi-step sequence of operations, an unusual input (values near a limit, a particular size/offset/count, particular octets), or two cooperating sites that each look fine alone — NOT something ordinary use or the existing tests would expose at once. Think of the kind of mistake a maintainer could plausibly make in a refactoring or an "optimisation" (an off-by-one on a limit, a fast path that skips a check, a comparison that short-circuits, a cache keyed too coarsely, a wrong mask, state not reset on one path, a boundary handled with < instead of <=, …). Spread the changes over different clauses/mechanisms of the property. Keep each patch small (a few lines). {hint}
 (d) comes with a demonstration: a small Rust test in a NEW file (an integration test under the touched crate's `tests/` directory using public API, or a new `#[cfg(test)]` module file included from the crate if private access is needed — in that case the include line belongs to the demo, not to the patch) that FAILS with your change applied and PASSES on the unchanged tree. Verify both directions yourself.

Deliver, for each change k = 1..{n}, a directory `/tmp/seed-{low}/OUT/<k>/` containing: `patch.diff` (`git diff` of the source change only, applicable with `git apply` on a clean checkout of HEAD), `demo.rs` (the demonstration test file; first line a comment saying where to put it and how to run it, e.g. `// crates/proto/tests/seed_{low}_1.rs ; cargo test --offline -p hickory-proto --features dnssec-ring --test seed_{low}_1`; if the demo needs an extra line elsewhere (e.g. `mod seed;`), say so in that comment), and `meta.json` with keys `property` ("{pid}"), `summary` (what the change does), `needs` (what specific input/sequence/schedule it needs in order to manifest), `demo_cmd`, `suite_cmd` (what you ran for (b)) and `suite_result` (e.g. "no new failures vs unchanged tree: N passed, M failed (same M network tests)"). After producing each patch, restore the tree to clean HEAD (`git checkout -- . && git clean -fd -e OUT -e target`) before starting the next so that the patches are independent. Do not commit anything and do not use `git stash` (the stash is shared by all worktrees of the repository; use `git diff > file`, `git checkout -- .`, `git apply file` instead). Leave `/tmp/seed-{low}/OUT` in place at the end and the working tree otherwise clean.

In your final message list the changes (one paragraph each: what, why it passes the suite, what exposes it) — nothing else is needed.""")
