#!/usr/bin/env python3
"""tools/seed_keep.py <PID> <seed-worktree> : archive confirmed seeded changes under seeded/<PID>-<k>/"""
import json, os, shutil, sys
ROOT = os.path.dirname(os.path.dirname(os.path.abspath(__file__)))
pid, wt = sys.argv[1], sys.argv[2]
for k in sorted(d for d in os.listdir(os.path.join(wt, "OUT")) if d.isdigit()):
    src = os.path.join(wt, "OUT", k)
    ev = json.load(open(os.path.join(src, "eval.json"))) if os.path.exists(os.path.join(src, "eval.json")) else {}
    meta = json.load(open(os.path.join(src, "meta.json")))
    dst = os.path.join(ROOT, "seeded", f"{pid}-{os.environ.get('SEED_SUFFIX', '')}{'-' if os.environ.get('SEED_SUFFIX') else ''}{k}")
    os.makedirs(dst, exist_ok=True)
    shutil.copy(os.path.join(src, "patch.diff"), dst)
    shutil.copy(os.path.join(src, "demo.rs"), dst)
    caught = [t for t in ("quick", "thorough") if ev.get("check_" + t, {}).get("rc") == 1]
    meta.update({
        "breaks_property": pid,
        "confirmed_by_coordinator": {
            "demo_passes_on_unchanged_tree": ev.get("demo_unchanged_ok"),
            "demo_fails_with_patch": ev.get("demo_patched_fails"),
            "pinned_baseline_with_patch": ev.get("baseline_line"),
            "ran": "tools/seed_eval.py (scratch worktree, HK_REPO testing aid; /repo untouched)",
        },
        "check_result": {t: ev.get("check_" + t) for t in ("quick", "thorough") if "check_" + t in ev},
        "caught_by": caught[0] if caught else None,
    })
    for o in sys.argv[3:]:
        kk, _, v = o.partition("=")
        kid, _, field = kk.partition(".")
        if kid == k:
            cur = meta
            parts = field.split(".")
            for p in parts[:-1]: cur = cur.setdefault(p, {})
            try: cur[parts[-1]] = json.loads(v)
            except Exception: cur[parts[-1]] = v
    json.dump(meta, open(os.path.join(dst, "meta.json"), "w"), indent=1)
    print(dst, "caught_by=", meta["caught_by"])
