#!/usr/bin/env python3
"""Regenerates MANIFEST.json from checks/*.json (claimed properties) + properties.jsonl (the rest go
under not_applicable with the reason recorded in checks/_global.json)."""
import json, os, subprocess
ROOT = os.path.dirname(os.path.dirname(os.path.abspath(__file__)))
checks = {f[:-5]: json.load(open(os.path.join(ROOT, "checks", f)))
          for f in sorted(os.listdir(os.path.join(ROOT, "checks"))) if f.endswith(".json") and not f.startswith("_")}
glob = json.load(open(os.path.join(ROOT, "checks", "_global.json")))
props = [json.loads(l) for l in open(os.path.join(ROOT, "properties.jsonl"))]
unclaimed = glob.get("unclaimed", {})
hooks_commits = glob.get("hook_commits", [])
m = {
 "version": 1,
 "setup_cmd": "bin/setup",
 "hooks": {
  "guard": "--cfg hickory_dns_verif",
  "enable": "harness/.cargo/config.toml sets build.rustflags = [\"--cfg\", \"hickory_dns_verif\"]; the harness crate has path dependencies on /repo/crates/* so every check rebuilds /repo's working tree with the hooks on",
  "baseline_off_cmd": "bin/baseline",
  "source_commits": hooks_commits,
  "add_only": True
 },
 "engines": [
  {"name": "lean-models-and-proofs", "path": "lean/", "serves_properties": [k for k in checks if not k.startswith("_")],
   "kind_free_text": "Lean 4 executable models of the anchored Rust code, specifications and machine-checked property theorems (lake build + #print axioms audit + leanchecker in the thorough tier)"},
  {"name": "correspondence-harness", "path": "harness/", "serves_properties": [k for k in checks if not k.startswith("_")],
   "kind_free_text": "Rust harness calling the real hickory crates in-process on seeded structured/malformed inputs; output diffed line by line with the Lean driver hkdrv; property oracle evaluated on the implementation"},
  {"name": "const-extractor", "path": "tools/extract_consts.py", "serves_properties": [k for k in checks if not k.startswith("_")],
   "kind_free_text": "regenerates lean/HickoryVerif/Generated/*.lean (limits and code tables) from /repo's sources on every run"}
 ],
 "checks": [],
 "notes": "bin/check <ID> --tier quick|thorough [--replay FILE]; see DESIGN.md. known-findings.json lists genuine defects recorded or fixed.",
 "not_applicable": []
}
for p in props:
    pid = p["id"]
    if pid in checks and not checks[pid].get('disabled'):
        c = checks[pid]
        m["checks"].append({
            "property_id": pid,
            "quick_cmd": f"bin/check {pid} --tier quick",
            "thorough_cmd": f"bin/check {pid} --tier thorough",
            "evidence_file": f"/verif/evidence/{pid}.json",
            "replay_cmd_template": f"bin/check {pid} --replay {{path}}",
            "engine": "lean-models-and-proofs",
            "level_claimed": {"category": "proof", "text": c["level_text"], "design_ref": c.get("design_ref", "DESIGN.md §9-" + pid)},
            "level_note": c["level_note"],
            "technique": c.get("technique", "Lean 4 theorems about an executable model + differential correspondence check against the Rust code"),
        })
    else:
        m["not_applicable"].append({"property_id": pid, "reason": (checks.get(pid, {}).get("disabled") or unclaimed.get(pid, "check not built yet (work in progress; see DESIGN.md §11 staging) — not a claim that the technique cannot apply"))})
json.dump(m, open(os.path.join(ROOT, "MANIFEST.json"), "w"), indent=1)
print("MANIFEST.json:", len(m["checks"]), "claimed,", len(m["not_applicable"]), "not claimed")
