#!/usr/bin/env python3
"""tools/seed_eval.py <PID> <seed-worktree> [k ...]

Confirms seeded changes delivered by a seeding sub-agent in <seed-worktree>/OUT/<k>/ and runs the
property's check against each, WITHOUT touching /repo (HK_REPO testing aid of bin/check):

  for each k:  clean tree -> demo must PASS on the unchanged tree
               apply patch -> builds; pinned baseline (bin/baseline with HK_REPO) must stay 604/604;
                              demo must FAIL; `HK_REPO=<wt> bin/check <PID>` is run (quick, and
                              thorough if quick misses) and its verdict recorded
               revert
Writes <seed-worktree>/OUT/<k>/eval.json and prints a summary line per change.
"""
import json, os, re, shutil, subprocess, sys, time

ROOT = os.path.dirname(os.path.dirname(os.path.abspath(__file__)))
pid, wt = sys.argv[1], os.path.abspath(sys.argv[2])
ks = sys.argv[3:] or sorted(d for d in os.listdir(os.path.join(wt, "OUT")) if d.isdigit())
env = dict(os.environ, CARGO_NET_OFFLINE="true", HK_REPO=wt)
env.pop("RUSTFLAGS", None)


def sh(cmd, cwd=wt, timeout=3600, e=None):
    p = subprocess.run(cmd, cwd=cwd, shell=isinstance(cmd, str), env=e or env, stdout=subprocess.PIPE,
                       stderr=subprocess.STDOUT, text=True, timeout=timeout)
    return p.returncode, p.stdout


def clean():
    sh("git checkout -- . && git clean -fdq -e OUT -e target")


def place_demo(k):
    d = os.path.join(wt, "OUT", k)
    first = open(os.path.join(d, "demo.rs")).readline()
    line = first.strip()
    m = re.match(r"//\s*(\S+\.rs)", line)
    mc = re.findall(r"(cargo (?:test|nextest)[^;()`]*)", line)
    if not m or not mc:
        return None, None, first
    rel, cmd = m.group(1), mc[-1].strip()
    # "also add `mod X;` to <file>": a private-access demo included from the crate
    mm = re.search(r"`(?:#\[cfg\(test\)\]\s*)?mod (\w+);`.*?(?:to|in) (crates/\S+\.rs)", line)
    if mm:
        host = os.path.join(wt, mm.group(2))
        with open(host, "a") as f:
            f.write(f"\n#[cfg(test)]\nmod {mm.group(1)};\n")
    dst = os.path.join(wt, rel)
    os.makedirs(os.path.dirname(dst), exist_ok=True)
    shutil.copy(os.path.join(d, "demo.rs"), dst)
    if "--offline" not in cmd:
        cmd = cmd.replace("cargo test", "cargo test --offline")
    return rel, cmd, first


for k in ks:
    d = os.path.join(wt, "OUT", k)
    res = {"property": pid, "k": k, "at": time.strftime("%F %T")}
    clean()
    rel, cmd, first = place_demo(k)
    if not cmd:
        res["error"] = "cannot parse demo header: " + first
    else:
        rc, out = sh(cmd)
        res["demo_unchanged_rc"] = rc
        res["demo_unchanged_ok"] = rc == 0
        rc, out = sh(["git", "apply", os.path.join(d, "patch.diff")])
        res["apply_rc"] = rc
        if rc == 0:
            rc, out = sh(cmd)
            res["demo_patched_rc"] = rc
            res["demo_patched_fails"] = rc != 0 and "error: could not compile" not in out
            res["demo_tail"] = out[-600:]
            # baseline with the patch (demo removed so that it is not part of the suite; patch re-applied cleanly)
            clean()
            sh(["git", "apply", os.path.join(d, "patch.diff")])
            rc, out = sh([os.path.join(ROOT, "bin", "baseline")], timeout=7200)
            res["baseline_rc"] = rc
            res["baseline_line"] = [l for l in out.splitlines() if l.startswith("baseline:")][-1:]
            res["baseline_missing"] = [l for l in out.splitlines() if l.startswith("MISSING")][:10]
            for tier in ("quick", "thorough"):
                t0 = time.time()
                rc, out = sh([os.path.join(ROOT, "bin", "check"), pid, "--tier", tier], cwd=ROOT, timeout=7200)
                res["check_" + tier] = {"rc": rc, "wall_s": round(time.time() - t0, 1),
                                        "lines": [l for l in out.splitlines() if l.startswith(("VIOLATION", "OK", "KNOWN"))][:6]}
                # keep the replay(s) next to the seed
                for l in out.splitlines():
                    mm = re.search(r"replay=(\S+)", l)
                    if mm and os.path.exists(mm.group(1)):
                        shutil.copy(mm.group(1), os.path.join(d, "replay-" + tier + "-" + os.path.basename(mm.group(1))))
                if rc != 0:
                    break
    clean()
    json.dump(res, open(os.path.join(d, "eval.json"), "w"), indent=1)
    caught = any(res.get("check_" + t, {}).get("rc") == 1 for t in ("quick", "thorough"))
    print(f"SEED {pid}/{k}: demo_ok_unchanged={res.get('demo_unchanged_ok')} demo_fails_patched={res.get('demo_patched_fails')} "
          f"baseline={res.get('baseline_line')} caught={caught} "
          f"{[res.get('check_'+t,{}).get('lines') for t in ('quick','thorough') if 'check_'+t in res]}")
# restore generated consts for the real repo
subprocess.run([sys.executable, os.path.join(ROOT, "tools", "extract_consts.py")], cwd=ROOT,
               env=dict(os.environ, HK_REPO="/repo"), stdout=subprocess.DEVNULL)
