#!/usr/bin/env python3
"""Regenerates lean/HickoryVerif/Generated/{Consts,Tables}.lean from /repo's sources.

Every value is located with an anchored regular expression; if the source no longer matches the
script fails loudly (exit 1) — the tie between model and code is then broken and bin/check reports
it.  Files are rewritten only when their content changes (so lake does not rebuild needlessly).
"""
import os, re, sys

REPO = os.environ.get("HK_REPO", "/repo")
ROOT = os.path.dirname(os.path.dirname(os.path.abspath(__file__)))
OUT = os.path.join(ROOT, "lean", "HickoryVerif", "Generated")


def src(rel):
    return open(os.path.join(REPO, rel)).read()


def num(s):
    s = s.replace("_", "")
    s = re.sub(r"(usize|u8|u16|u32|u64|i32)$", "", s)
    return int(s, 0)


def one(rel, pattern, what):
    m = re.findall(pattern, src(rel), re.M)
    if len(m) != 1:
        sys.exit(f"extract_consts: {what}: expected exactly one match of /{pattern}/ in {rel}, found {len(m)}")
    return m[0]


CONSTS = [
    # (lean name, file, regex with one group, comment)
    ("NAME_MAX_LENGTH", "crates/proto/src/rr/domain/name.rs", r"^\s*pub const MAX_LENGTH: usize = (\w+);", "Name::MAX_LENGTH"),
    ("LABEL_MAX_LENGTH", "crates/proto/src/rr/domain/label.rs", r"from_raw_bytes[\s\S]*?if bytes\.len\(\) > (\d+) \{", "Label::from_raw_bytes upper bound"),
    ("COMPRESSED_NAME_LIMIT", "crates/proto/src/rr/domain/name.rs", r"^const COMPRESSED_NAME_LIMIT: usize = (\w+);", "names compressed per message"),
    ("COMPRESSION_CANDIDATE_LIMIT", "crates/proto/src/serialize/binary/encoder.rs", r"^const COMPRESSION_CANDIDATE_LIMIT: usize = (\w+);", "stored compression candidates"),
    ("POINTER_OFFSET_BOUND", "crates/proto/src/serialize/binary/encoder.rs", r"if self\.offset < (0x[0-9A-Fa-f_]+)_usize && self\.name_pointers\.len\(\)", "store_label_pointer offset bound"),
    ("QOS_MAX_RECEIVE_MSGS", "crates/net/src/xfer/dns_multiplexer.rs", r"^const QOS_MAX_RECEIVE_MSGS: usize = (\w+);", "multiplexer messages per poll"),
    ("MAX_KEY_TAG_COLLISIONS", "crates/net/src/dnssec/mod.rs", r"^const MAX_KEY_TAG_COLLISIONS: usize = (\w+);", ""),
    ("MAX_RRSIGS_PER_RRSET", "crates/net/src/dnssec/mod.rs", r"^const MAX_RRSIGS_PER_RRSET: usize = (\w+);", ""),
    ("DEFAULT_MAX_REQUEST_DEPTH", "crates/proto/src/op/dns_request.rs", r"^\s*max_request_depth: (\d+),", "DnsRequestOptions::default().max_request_depth (DNSSEC validation depth backstop)"),
    ("CACHE_MAX_TTL", "crates/resolver/src/cache.rs", r"^pub const MAX_TTL: u32 = (\w+);", "resolver cache MAX_TTL"),
    ("MAX_CNAME_LOOKUPS", "crates/resolver/src/recursor/handle.rs", r"^const MAX_CNAME_LOOKUPS: u8 = (\w+);", "recursor"),
    ("RECURSOR_RECURSION_LIMIT_DEFAULT", "crates/resolver/src/recursor/mod.rs", r"^\s*recursion_limit: (\d+),", "RecursorOptions::default().recursion_limit"),
    ("RECURSOR_NS_RECURSION_LIMIT_DEFAULT", "crates/resolver/src/recursor/mod.rs", r"^\s*ns_recursion_limit: (\d+),", "RecursorOptions::default().ns_recursion_limit"),
    ("MAX_QUERY_DEPTH", "crates/resolver/src/caching_client.rs", r"^\s*const MAX_QUERY_DEPTH: u8 = (\w+);", "stub resolver alias depth"),
    ("MAX_CNAME_DEPTH", "crates/server/src/store/in_memory/inner.rs", r"^\s*const MAX_CNAME_DEPTH: usize = (\w+);", "authoritative CNAME chase depth"),
    ("UDP_MAX_EXAMINED", "crates/net/src/udp/udp_client_stream.rs", r"^\s*for _ in 0\.\.(\d+) \{", "datagrams examined per UDP transmission"),
    ("QUERY_RESPONSE_BUFFER_SIZE", "crates/net/src/xfer/dns_multiplexer.rs", r"^const QUERY_RESPONSE_BUFFER_SIZE: usize = (\w+);", "per-query response channel size"),
    ("MAX_INCLUDE_LEVEL", "crates/proto/src/serialize/txt/zone.rs", r"^const MAX_INCLUDE_LEVEL: usize = (\w+);", "zone file $INCLUDE depth"),
    ("POOL_BACKOFF_START_MS", "crates/resolver/src/name_server_pool.rs", r"^\s*let mut backoff = Duration::from_millis\((\d+)\);", "try_send: first back-off sleep (ms)"),
    ("POOL_BACKOFF_LIMIT_MS", "crates/resolver/src/name_server_pool.rs", r"if !busy\.is_empty\(\) && backoff < Duration::from_millis\((\d+)\) \{", "try_send: back-off stops at (ms)"),
    ("POOL_BACKOFF_FACTOR", "crates/resolver/src/name_server_pool.rs", r"^\s*backoff \*= (\d+);", "try_send: back-off growth factor"),
    # C13 (TSIG)
    ("TSIG_ERR_BADSIG", "crates/proto/src/rr/rdata/tsig.rs", r"^\s*TsigError::BadSig => (\d+),", "u16::from(TsigError::BadSig)"),
    ("TSIG_ERR_BADKEY", "crates/proto/src/rr/rdata/tsig.rs", r"^\s*TsigError::BadKey => (\d+),", "u16::from(TsigError::BadKey)"),
    ("TSIG_ERR_BADTIME", "crates/proto/src/rr/rdata/tsig.rs", r"^\s*TsigError::BadTime => (\d+),", "u16::from(TsigError::BadTime)"),
    ("TSIG_UNKNOWN_KEY_FUDGE", "crates/proto/src/rr/tsig.rs", r"TsigAlgorithm::HmacSha256,\s*self\.time,\s*(\d+),", "fudge of the unsigned BADKEY reply"),
    ("OPCODE_UPDATE", "crates/proto/src/op/op_code.rs", r"^\s*OpCode::Update => (\d+),", "u8::from(OpCode::Update)"),
    ("RCODE_REFUSED", "crates/proto/src/op/response_code.rs", r"^\s*ResponseCode::Refused => (\d+),", "u16::from(ResponseCode::Refused)"),
    ("RCODE_NOTAUTH", "crates/proto/src/op/response_code.rs", r"^\s*ResponseCode::NotAuth => (\d+),", "u16::from(ResponseCode::NotAuth)"),
    ("SERVER_UDP_NO_EDNS_LIMIT", "crates/server/src/zone_handler/message_response.rs", r"// restricts the message to 512 bytes\s*None => (\d+),", "MessageResponse::encode: UDP limit without EDNS"),
    ("SERVER_FALLBACK_LIMIT", "crates/server/src/zone_handler/message_response.rs", r"bytes\.clear\(\);\s*let mut encoder = BinEncoder::new\(&mut bytes\);\s*encoder\.set_max_size\((\d+)\);", "MessageResponse::encode: SERVFAIL fallback limit"),
    ("EDNS_MIN_PAYLOAD", "crates/proto/src/rr/dns_class.rs", r"pub fn for_opt[\s\S]*?value\.max\((\d+)\)", "DNSClass::for_opt lower clamp"),
    ("CATALOG_MIN_PAYLOAD", "crates/server/src/zone_handler/catalog.rs", r"resp_edns\.set_max_payload\(req_edns\.max_payload\(\)\.max\((\d+)\)\);", "Catalog: response EDNS payload lower clamp"),
]


def table(rel, fn_sig_regex, arm_regex, what):
    s = src(rel)
    m = re.search(fn_sig_regex, s)
    if not m:
        sys.exit(f"extract_consts: {what}: function not found in {rel}")
    body = s[m.end():]
    # up to the end of the match block: first line that is exactly 8 spaces + '}'
    end = re.search(r"^\s{8}\}\s*$", body, re.M)
    body = body[: end.start()] if end else body[:4000]
    rows = re.findall(arm_regex, body, re.M)
    if len(rows) < 3:
        sys.exit(f"extract_consts: {what}: only {len(rows)} rows matched in {rel}")
    return rows


def main():
    os.makedirs(OUT, exist_ok=True)
    lines = ["/- GENERATED by tools/extract_consts.py from /repo on every run — do not edit. -/",
             "namespace HickoryVerif.Generated", ""]
    for name, rel, pat, comment in CONSTS:
        v = num(one(rel, pat, name))
        lines.append(f"/-- {comment or name} ({rel}) -/")
        lines.append(f"def {name} : Nat := {v}")
    lines += ["", "end HickoryVerif.Generated", ""]
    consts = "\n".join(lines)

    rt_from = table("crates/proto/src/rr/record_type.rs", r"impl From<u16> for RecordType \{[\s\S]*?fn from\(value: u16\) -> Self \{\s*match value \{",
                    r"^\s*(\d+) => Self::(\w+),", "RecordType::from(u16)")
    rt_to = table("crates/proto/src/rr/record_type.rs", r"impl From<RecordType> for u16 \{[\s\S]*?fn from\(rt: RecordType\) -> Self \{\s*match rt \{",
                  r"^\s*RecordType::(\w+) => (\d+),", "u16::from(RecordType)")
    cl_from = table("crates/proto/src/rr/dns_class.rs", r"impl From<u16> for DNSClass \{[\s\S]*?match value \{",
                    r"^\s*(\d+) => Self::(\w+),", "DNSClass::from(u16)")
    cl_to = table("crates/proto/src/rr/dns_class.rs", r"impl From<DNSClass> for u16 \{[\s\S]*?match \w+ \{",
                  r"^\s*DNSClass::(\w+) => (\d+),", "u16::from(DNSClass)")
    t = ["/- GENERATED by tools/extract_consts.py from /repo on every run — do not edit. -/",
         "namespace HickoryVerif.Generated", "",
         "/-- `impl From<u16> for RecordType` (named arms; any other value is `Unknown(value)`) -/",
         "def recordTypeOfCode : List (Nat × String) := ["
         + ", ".join(f'({c}, "{n}")' for c, n in rt_from) + "]", "",
         "/-- `impl From<RecordType> for u16` (named arms) -/",
         "def recordTypeToCode : List (String × Nat) := ["
         + ", ".join(f'("{n}", {c})' for n, c in rt_to) + "]", "",
         "/-- `impl From<u16> for DNSClass` -/",
         "def dnsClassOfCode : List (Nat × String) := ["
         + ", ".join(f'({c}, "{n}")' for c, n in cl_from) + "]", "",
         "/-- `impl From<DNSClass> for u16` -/",
         "def dnsClassToCode : List (String × Nat) := ["
         + ", ".join(f'("{n}", {c})' for n, c in cl_to) + "]", "",
         "end HickoryVerif.Generated", ""]
    tables = "\n".join(t)
    # ---- C11: opcode / response-code tables of the server gate (separate generated file) ----
    oc_from = table("crates/proto/src/op/op_code.rs", r"pub fn from_u8\(value: u8\) -> Self \{\s*match value \{",
                    r"^\s*(\d+) => Self::(\w+),", "OpCode::from_u8")
    rc_rows = table("crates/proto/src/op/response_code.rs", r"impl From<ResponseCode> for u16 \{[\s\S]*?fn from\(rt: ResponseCode\) -> Self \{\s*match rt \{",
                    r"^\s*ResponseCode::(\w+)(?: \| ResponseCode::(\w+))? => (\d+),", "u16::from(ResponseCode)")
    rc_to = [(n, c) for a, b_, c in rc_rows for n in (a, b_) if n]
    hi = one("crates/proto/src/op/response_code.rs", r"pub fn high\(self\) -> u8 \{\s*\(\(u16::from\(self\) & (0x[0-9A-Fa-f_]+)\) >> (\d+)\) as u8", "ResponseCode::high")
    sc = ["/- GENERATED by tools/extract_consts.py from /repo on every run — do not edit. -/",
          "namespace HickoryVerif.Generated", "",
          "/-- `OpCode::from_u8` (named arms; any other value is `OpCode::Unknown(value)`) -/",
          "def opCodeOfCode : List (Nat × String) := [" + ", ".join(f'({c}, "{n}")' for c, n in oc_from) + "]", "",
          "/-- `impl From<ResponseCode> for u16` (named arms) -/",
          "def responseCodeToCode : List (String × Nat) := [" + ", ".join(f'("{n}", {c})' for n, c in rc_to) + "]", "",
          "/-- `ResponseCode::high`: `(code & mask) >> shift` -/",
          f"def RCODE_HIGH_MASK : Nat := {num(hi[0])}",
          f"def RCODE_HIGH_SHIFT : Nat := {num(hi[1])}", "",
          "end HickoryVerif.Generated", ""]
    sc = "\n".join(sc)
    psc = os.path.join(OUT, "ServerCodes.lean")
    if (open(psc).read() if os.path.exists(psc) else None) != sc:
        open(psc, "w").write(sc)
    changed = []
    for fn, content in (("Consts.lean", consts), ("Tables.lean", tables)):
        p = os.path.join(OUT, fn)
        old = open(p).read() if os.path.exists(p) else None
        if old != content:
            open(p, "w").write(content)
            changed.append(fn)
    print("extract_consts: ok" + (f" (rewrote {', '.join(changed)})" if changed else " (unchanged)"))


if __name__ == "__main__":
    main()
