#!/usr/bin/env python3
"""Generates the EXTERNAL signature vectors of C05 / C06 with the openssl CLI (a third-party signer).

  corpus/C05/external-vectors.case   `xv`  lines: DNSKEY::verify_rrsig must accept every genuine vector
  corpus/C06/external-vectors.case   `vkx` lines: verify_rrset_with_dnskey must say Secure for every genuine vector

RUN BY HAND ONLY (needs /root/miniconda/bin/openssl and a built lean/.lake/build/bin/hkdrv); the registered
checks only *replay* the committed .case files and never call openssl.  Keys are fresh on every run, so a
regeneration rewrites both files completely.

What is independent of hickory-dns here:
  * the keys and the signatures (openssl: RSA PKCS#1 v1.5 with SHA-1/256/512, ECDSA P-256/P-384, Ed25519);
  * the signed bytes: the RFC 4035 §5.3.2 signed data of a few fixed RRsets, computed by the Lean
    specification `Spec.signedData` through `hkdrv c05` (op `spec`), not by hickory's TBS and not by the Rust
    reference encoder of the harness (which is compared against them at replay time as well);
  * the DNSKEY public-key encodings (RFC 3110 §2, RFC 6605 §4, RFC 8080 §3) and the key tag (RFC 4034 App. B),
    computed below.

RSA keys: 1024, 1280, 2048, 3072, 4096 bits with e = 65537, and 1024 / 2048 bits with e = 3 (if this openssl
agrees to generate them); each with algorithms 5 (RSASHA1), 7 (RSASHA1-NSEC3-SHA1), 8 (RSASHA256), 10 (RSASHA512).
Non-canonical RFC 3110 encodings (3-octet exponent length for a short exponent, exponent with a leading zero
octet) are emitted with expectation ANY (recorded, nothing demanded).
"""
import os, subprocess, sys, tempfile

OPENSSL = os.environ.get("OPENSSL", "/root/miniconda/bin/openssl")
ROOT = os.path.dirname(os.path.dirname(os.path.abspath(__file__)))
HKDRV = os.path.join(ROOT, "lean", ".lake", "build", "bin", "hkdrv")
TMP = tempfile.mkdtemp(prefix="hkvec-")


def ossl(*args, data=None):
    p = subprocess.run([OPENSSL, *args], input=data, capture_output=True)
    if p.returncode != 0:
        raise RuntimeError("openssl %s: %s" % (" ".join(args), p.stderr.decode()[:300]))
    return p.stdout


def hexs(b):
    return b.hex() if b else "-"


def name_tok(s):
    labels = [l for l in s.rstrip(".").split(".") if l]
    return "F:" + ".".join(l.encode().hex() for l in labels)


def wire(s):
    out = b""
    for l in [l for l in s.rstrip(".").split(".") if l]:
        out += bytes([len(l)]) + l.encode()
    return out + b"\0"


def key_tag(rdata):
    ac = 0
    for i, b in enumerate(rdata):
        ac += b << 8 if i % 2 == 0 else b
    ac += (ac >> 16) & 0xFFFF
    return ac & 0xFFFF


# ---------------------------------------------------------------- the fixed RRsets (record tokens of c05.rs)
OWNER_A, OWNER_Z = "www.example.com.", "example.com."
RRSETS = [
    # (owner, type, labels, [record tokens without owner])
    (OWNER_A, 1, 3, ["a,c0000201", "a,c0000202"]),
    (OWNER_Z, 2, 2, ["ns," + name_tok("ns1.Example.NET."), "ns," + name_tok("NS2.example.net.")]),
    (OWNER_Z, 16, 2, ["txt," + b"v=spf1 -all".hex(), "txt,61;62", "txt,61"]),
]
SIGNER = "Example.COM."
OTTL, INC, EXP, NOW = 3600, 1_700_000_000, 1_800_000_000, 1_750_000_000


def case_args(rr, alg, tag):
    owner, ty, labels, recs = rr
    s = "%s 1 %d %d %d %d %d %d %d %s" % (name_tok(owner), ty, alg, labels, OTTL, EXP, INC, tag, name_tok(SIGNER))
    for r in recs:
        s += " %s/%d/1/%d/%s" % (name_tok(owner), ty, OTTL, r)
    return s


def lean_signed_data(args):
    p = subprocess.run([HKDRV, "c05"], input=("spec " + args + "\n").encode(), capture_output=True)
    out = p.stdout.decode().strip()
    if not out.startswith("some "):
        raise RuntimeError("hkdrv spec: " + out[:200])
    return bytes.fromhex(out[5:])


# ---------------------------------------------------------------- keys
def der_tlv(buf, i):
    tag = buf[i]
    ln = buf[i + 1]
    i += 2
    if ln & 0x80:
        n = ln & 0x7F
        ln = int.from_bytes(buf[i:i + n], "big")
        i += n
    return tag, buf[i:i + ln], i + ln


def ecdsa_der_to_raw(sig, flen):
    _, seq, _ = der_tlv(sig, 0)
    _, r, j = der_tlv(seq, 0)
    _, s, _ = der_tlv(seq, j)
    fix = lambda x: int.from_bytes(x, "big").to_bytes(flen, "big")
    return fix(r) + fix(s)


class Key:
    pass


def rsa_key(bits, e):
    k = Key()
    k.pem = os.path.join(TMP, "rsa-%d-%d.pem" % (bits, e))
    ossl("genpkey", "-algorithm", "RSA", "-pkeyopt", "rsa_keygen_bits:%d" % bits, "-pkeyopt", "rsa_keygen_pubexp:%d" % e, "-out", k.pem)
    mod = ossl("rsa", "-in", k.pem, "-noout", "-modulus").decode().strip().split("=")[1]
    k.n = bytes.fromhex(mod if len(mod) % 2 == 0 else "0" + mod).lstrip(b"\0")
    k.e = e.to_bytes((e.bit_length() + 7) // 8, "big")
    k.kind, k.bits = "rsa", bits
    k.label = "RSA-%d e=%d" % (bits, e)
    return k


def rsa_pub(k, form="canonical"):
    if form == "canonical":  # RFC 3110 §2: one length octet for an exponent of 1..255 octets
        return bytes([len(k.e)]) + k.e + k.n
    if form == "3-octet-length":  # zero octet + two-octet length, although the exponent is short
        return b"\0" + len(k.e).to_bytes(2, "big") + k.e + k.n
    if form == "leading-zero-exponent":
        e = b"\0" + k.e
        return bytes([len(e)]) + e + k.n
    raise ValueError(form)


def rsa_sign(k, alg, data):
    md = {5: "-sha1", 7: "-sha1", 8: "-sha256", 10: "-sha512"}[alg]
    f = os.path.join(TMP, "tbs.bin")
    open(f, "wb").write(data)
    return ossl("dgst", md, "-sign", k.pem, f)


def ec_key(curve, alg, flen):
    k = Key()
    k.pem = os.path.join(TMP, "ec-%s.pem" % curve)
    ossl("genpkey", "-algorithm", "EC", "-pkeyopt", "ec_paramgen_curve:" + curve, "-out", k.pem)
    der = ossl("pkey", "-in", k.pem, "-pubout", "-outform", "DER")
    point = der[-(2 * flen + 1):]
    assert point[0] == 4
    k.pub, k.alg, k.flen, k.kind = point[1:], alg, flen, "ec"
    k.label = "ECDSA-" + curve
    return k


def ec_sign(k, data):
    md = "-sha256" if k.alg == 13 else "-sha384"
    f = os.path.join(TMP, "tbs.bin")
    open(f, "wb").write(data)
    return ecdsa_der_to_raw(ossl("dgst", md, "-sign", k.pem, f), k.flen)


def ed_key():
    k = Key()
    k.pem = os.path.join(TMP, "ed25519.pem")
    ossl("genpkey", "-algorithm", "ED25519", "-out", k.pem)
    der = ossl("pkey", "-in", k.pem, "-pubout", "-outform", "DER")
    k.pub, k.alg, k.kind, k.label = der[-32:], 15, "ed", "Ed25519"
    return k


def ed_sign(k, data):
    f = os.path.join(TMP, "tbs.bin")
    open(f, "wb").write(data)
    return ossl("pkeyutl", "-sign", "-inkey", k.pem, "-rawin", "-in", f)


# ---------------------------------------------------------------- vectors
def vector(alg, pub, sign, rr, expect, note):
    rdata = (257).to_bytes(2, "big") + bytes([3, alg]) + pub
    tag = key_tag(rdata)
    args = case_args(rr, alg, tag)
    tbs = lean_signed_data(args)
    sig = sign(tbs)
    key = "%s;257;%d;%s" % (name_tok(SIGNER.lower()), alg, pub.hex())
    xv = "xv %s %s %s %s %s" % (expect, key, sig.hex(), tbs.hex(), args)
    owner, ty, labels, recs = rr
    sg = "%s;1;%d;%d;%d;%d;%d;%d;%d;%d;%s;%s" % (name_tok(owner), OTTL, ty, alg, labels, OTTL, EXP, INC, tag, name_tok(SIGNER), sig.hex())
    vkx = "vkx %s %d S %s %s %s %d !" % (expect, NOW, key, sg, name_tok(owner), ty)
    for r in recs:
        vkx += " %s/%d/1/%d/%s" % (name_tok(owner), ty, OTTL, r)
    return "# " + note, xv, vkx


def main():
    if not os.path.exists(HKDRV):
        sys.exit("build the Lean driver first: (cd lean && lake build hkdrv)")
    out = []
    rsa = []
    for bits in (1024, 1280, 2048, 3072, 4096):
        rsa.append(rsa_key(bits, 65537))
    for bits in (1024, 2048):
        try:
            rsa.append(rsa_key(bits, 3))
        except RuntimeError as e:
            print("note: no e=3 key of %d bits from this openssl (%s)" % (bits, str(e).splitlines()[-1][:80]))
    for k in rsa:
        for alg in (5, 7, 8, 10):
            for i, rr in enumerate(RRSETS):
                if k.bits >= 3072 and i > 0:
                    continue  # one RRset is enough for the long keys (line length)
                out.append(vector(alg, rsa_pub(k), lambda d, k=k, alg=alg: rsa_sign(k, alg, d), rr, "OK",
                                  "%s, algorithm %d, RRset %d" % (k.label, alg, i)))
    for k in rsa[:1] + rsa[2:3]:
        for form in ("3-octet-length", "leading-zero-exponent"):
            out.append(vector(8, rsa_pub(k, form), lambda d, k=k: rsa_sign(k, 8, d), RRSETS[0], "ANY",
                              "%s, algorithm 8, non-canonical RFC 3110 encoding: %s" % (k.label, form)))
    for k in (ec_key("P-256", 13, 32), ec_key("P-384", 14, 48)):
        for i, rr in enumerate(RRSETS):
            out.append(vector(k.alg, k.pub, lambda d, k=k: ec_sign(k, d), rr, "OK", "%s, algorithm %d, RRset %d" % (k.label, k.alg, i)))
    k = ed_key()
    for i, rr in enumerate(RRSETS):
        out.append(vector(15, k.pub, lambda d, k=k: ed_sign(k, d), rr, "OK", "Ed25519, algorithm 15, RRset %d" % i))

    ver = ossl("version").decode().strip()
    head = ["# EXTERNAL VECTORS — generated by tools/gen_rsa_vectors.py with %s; regenerated BY HAND only." % ver,
            "# Keys and signatures by openssl; signed bytes = Spec.signedData (Lean) of three fixed RRsets;",
            "# the check only replays this file (no openssl at run time).  %d vectors." % len(out)]
    for path, idx, fmt in ((os.path.join(ROOT, "corpus", "C05", "external-vectors.case"), 1,
                            "# xv EXPECT KEY(owner;flags;alg;pubkey) SIGNATURE SIGNEDDATA NAME CLS TYPE ALG LABELS ORIGTTL EXP INC TAG SIGNER REC*"),
                           (os.path.join(ROOT, "corpus", "C06", "external-vectors.case"), 2,
                            "# vkx EXPECT NOW KPROOF KEY SIG NAME TYPE ORC REC*   (a `vk` line whose verdict must be Secure when EXPECT = OK)")):
        with open(path, "w") as f:
            f.write("\n".join(head + [fmt]) + "\n")
            for v in out:
                f.write(v[0] + "\n" + v[idx] + "\n")
        print("wrote", path, len(out), "vectors")


if __name__ == "__main__":
    main()
